"""Translator for the play of the cards, bridge_env/playing_phase.py: Python `ast` -> Gallina (coq/Gen/PlayFns.v).
Reads the source TEXT only (never imports or evaluates it) and fails closed: anything outside the subset below raises
Untranslatable with file and line.  Classes translated: PlayingHistory, PlayingPhase, PlayingPhaseWithHands,
ObservedPlayingPhase (every method, one Definition each, callees first); TrickHistory is pinned (a frozen dataclass of
exactly `leader: Player; cards: Tuple[Card, ...]`, the pair `(seat * list card)`).

Object state.  An attribute is one field of the record of Model/Play.v for its class, through the table below and nothing
else; an attribute outside the table is refused.  A method is a function of the state `s`; every store to an attribute (or
into the container it holds) rebuilds the record with the other fields as they are, threaded in source order; every read is
the projection of the state current at that point.  The state is kept field by field (Env.st) and written out as a record
where it is needed as a value: at a return, at a raise, at a call.

  class PlayingPhase (record pstate, constructor mkP)
    trump -> trump : strain            declarer -> declarer : seat       dummy -> dummy : seat
    leader -> leader : seat            active_player -> pactive : seat   _trick_cards -> trick : list card (play order)
    trick_num -> trick_num : nat       playing_history -> rtricks        used_cards -> used : list card (a set; newest first)
    taken_tricks[Pair.NS] -> taken_ns : nat      taken_tricks[Pair.EW] -> taken_ew : nat
    contract -> not modelled (stored by __init__ from the parameter; any read is refused)
  class PlayingHistory (the state is the list itself, newest trick first: `.append(e)` is `e :: h`)
    _history -> the list (seat * list card)       _contract -> not modelled
  class PlayingPhaseWithHands (record hstate, mkH):  the PlayingPhase part -> hbase,  hands -> hands : seat -> list card
  class ObservedPlayingPhase (record ostate, mkO):   the PlayingPhase part -> obase,  _player -> ome,  _hand -> ohand,
    _dummy_hand -> odummy : option (list card)

Result of a method, from a pass over its body and the bodies it calls (effects): V = returns a value, M = stores,
R = can raise (a `raise`, an `assert`, `set.remove`, an index `xs[k]`, a call of a method that can):
  V only: the value;  V+R: option (None = raises);  R only: presult;  M only: the state;  M+R: (state, presult) - at a raise
  the state AS MUTATED SO FAR with PRaises, else POk;  `__init__`: the state, or option when it can raise.
`int` parameters, locals and results are Z (Python integers); the int FIELDS are nat, and only naturals (non-negative
literals, sums of naturals) can be stored in them.  Subtraction and every comparison involving a Z is done in Z.
Unannotated parameters are typed by name (player: seat, hand: set of cards, card: card); every call site is type-checked.

Subset.  Statements: stores `self.x = e` (annotated exactly as the table says), `self.x += e`, `self.d[k] += e` on the
Pair-keyed dict; `L.append(e)` (trick: `L ++ [e]`; history: cons), `S.add(e)` (cons), `S.remove(e)` on a set held in a
field or in `self.hands[p]` (`if has_card S e then <filter it out> else <raise KeyError>`; in hands the update is
`fun q => if seat_beq q p then remove_card (hands q) e else hands q`); locals `x = e` (a `let`; `x = a if c else b` is the
if statement); calls of methods as statements (`self.m(..)`, `super().m(..)` resolved to the base class definition,
`self.playing_history.record(..)` on the state held in that field); `return`, `raise <builtin exception>(message)`,
`assert e is not None` (a match whose None branch raises; other asserts: `if not e: raise`), `pass`, docstrings;
`if/elif/else` (a branch that always exits has nothing appended; the statements after the if are appended to every
branch that falls through); `for i, x in enumerate(L)` over locals with `continue` (py_for_enum, the loop-carried locals
as a tuple); `for _ in range(e): self.x = ..` (Nat.iter (Z.to_nat e)).
Tests: `e is None`/`is not None` on an Optional value is a `match` whose Some branch binds the content; `is`/`==` on
enum values and `<,<=,>,>=,==,!=` on integers; `x in S`/`not in`; `not`.
Expressions: literals, `-k`, `None`, parameters and locals, `self.x`, enum members, `.next_player .partner .pair`,
`card.suit .rank`, `contract.trump .declarer .is_passed_out()`, `len(..)`, `L[k]` for a literal k (raises when out of
range), `hands[p]`, `list() set() tuple(L)`, `{x for x in S if test}` (filter), `{Pair.NS: a, Pair.EW: b}`,
`PlayingHistory(..)`, `TrickHistory(..)` (its cards must be a `tuple(..)` copy), `+`, `-`, calls of value methods.
Pinned (exact source text, refused otherwise): the enums Player, Pair, Suit and that they keep identity equality;
Player.next_player/.left/.partner/.pair; the dataclasses Card (fields, frozen, __post_init__: a card's suit is never NT)
and Contract (fields, frozen, __post_init__), Contract.trump/.is_passed_out, Bid.suit/.idx; Hands.__init__/__getitem__
(a per-seat map that never raises on a Player) and that the package exports Hands and Pair from .hands/.pair;
PlayingHistory.__getitem__/.history; TrickHistory.  Read-only properties `return self.<attribute of the table>` are
accepted as they are."""
import ast

import gen
import gen_auction
from gen import Untranslatable

REL = 'bridge_env/playing_phase.py'

# class -> (state type, constructor or None, base class, field holding the base part,
#           [(attribute, field | ((member, field), ..), type, annotation in __init__ or None)], not-modelled attributes)
SHAPES = {
    'PlayingHistory': ('list (seat * list card)', None, None, None,
                       [('_history', '<self>', 'hist', 'List[TrickHistory]')], {'_contract': None}),
    'PlayingPhase': ('pstate', 'mkP', None, None,
                     [('trump', 'trump', 'strain', 'Suit'), ('declarer', 'declarer', 'seat', 'Player'),
                      ('dummy', 'dummy', 'seat', 'Player'), ('leader', 'leader', 'seat', 'Player'),
                      ('active_player', 'pactive', 'seat', 'Player'), ('_trick_cards', 'trick', 'clist', 'List[Card]'),
                      ('trick_num', 'trick_num', 'nat', 'int'), ('playing_history', 'rtricks', 'obj:PlayingHistory', None),
                      ('used_cards', 'used', 'cset', 'Set[Card]'),
                      ('taken_tricks', (('NS', 'taken_ns'), ('EW', 'taken_ew')), 'dict:Pair:nat', None)],
                     {'contract': None}),
    'PlayingPhaseWithHands': ('hstate', 'mkH', 'PlayingPhase', 'hbase', [('hands', 'hands', 'hands', None)], {}),
    'ObservedPlayingPhase': ('ostate', 'mkO', 'PlayingPhase', 'obase',
                             [('_player', 'ome', 'seat', None), ('_hand', 'ohand', 'cset', None),
                              ('_dummy_hand', 'odummy', 'o:cset', 'Optional[Set[Card]]')], {}),
}
# (class, method) -> name of the Definition
NAMES = {('PlayingHistory', '__init__'): 'g_history_init', ('PlayingHistory', 'record'): 'g_history_record',
         ('PlayingPhase', '__init__'): 'g_init_play', ('PlayingPhase', 'has_done'): 'g_phase_done',
         ('PlayingPhase', 'play_card'): 'g_play_card', ('PlayingPhase', 'play_card_by_player'): 'g_base_play_by',
         ('PlayingPhase', '_record'): 'g_record', ('PlayingPhase', '_set_next_leader'): 'g_set_next_leader',
         ('PlayingPhase', 'calc_highest'): 'g_calc_highest', ('PlayingPhase', '_check_has_card'): 'g_check_has_card',
         ('PlayingPhase', '_check_active_player'): 'g_check_active_player',
         ('PlayingPhase', 'available_cards'): 'g_available', ('PlayingPhase', 'current_available_cards'): 'g_current_available',
         ('PlayingPhaseWithHands', '__init__'): 'g_init_hands', ('PlayingPhaseWithHands', 'play_card_by_player'): 'g_play_by',
         ('PlayingPhaseWithHands', 'current_available_cards_in_hand'): 'g_hands_available',
         ('ObservedPlayingPhase', '__init__'): 'g_init_obs', ('ObservedPlayingPhase', 'set_dummy_hand'): 'g_set_dummy_hand',
         ('ObservedPlayingPhase', 'play_card_by_player'): 'g_obs_play_by',
         ('ObservedPlayingPhase', 'current_available_cards_in_hand'): 'g_obs_available_in_hand',
         ('ObservedPlayingPhase', 'current_available_cards_in_dummy_hand'): 'g_obs_available_in_dummy'}
BASES = {'TrickHistory': [], 'PlayingHistory': [], 'PlayingPhase': [], 'PlayingPhaseWithHands': ['PlayingPhase'],
         'ObservedPlayingPhase': ['PlayingPhase']}
# members of this module that are not translated: (class, name) -> (decorators, parameters, body), exact text
LOCAL_PINS = {('PlayingHistory', '__getitem__'): ([], 'self, item', 'return self._history[item]'),
              ('PlayingHistory', 'history'): (['property'], 'self', 'return tuple(self._history)')}
TRICKHISTORY = [('leader', 'Player'), ('cards', 'Tuple[Card, ...]')]
# annotation -> type (parameters and results); unannotated parameters by name
ANN = {'Player': 'seat', 'Suit': 'strain', 'Card': 'card', 'List[Card]': 'clist', 'Set[Card]': 'cset',
       'Tuple[Card, ...]': 'ctuple', 'int': 'Z', 'bool': 'bool', 'Contract': 'contract', 'Hands': 'hands',
       'TrickHistory': 'trickhist', 'Optional[Card]': 'o:card', 'Optional[Set[Card]]': 'o:cset'}
UNANN = {'player': 'seat', 'hand': 'cset', 'card': 'card'}
COQTY = {'seat': 'seat', 'side': 'side', 'strain': 'strain', 'suit': 'suit', 'card': 'card', 'clist': 'list card',
         'cset': 'list card', 'ctuple': 'list card', 'nat': 'nat', 'Z': 'Z', 'bool': 'bool', 'contract': 'contract',
         'trickhist': '(seat * list card)', 'hist': 'list (seat * list card)', 'hands': '(seat -> list card)'}
# name -> module it must be imported from ('' = the package itself, which must take it from the module in PACKAGE)
IMPORTS = {'Player': 'player', 'Suit': 'suit', 'Card': 'card', 'Contract': 'contract', 'Hands': '', 'Pair': ''}
PACKAGE = {'Hands': 'hands', 'Pair': 'pair'}
EXCEPTIONS = ('Exception', 'ValueError', 'KeyError', 'IndexError', 'TypeError', 'RuntimeError')
# library members relied on: (file, class, name) -> (decorators, parameters, body); Model/Basics.v models exactly this text
PINS = {('bridge_env/player.py', 'Player', 'next_player'): (['property'], 'self', 'return self.left'),
        ('bridge_env/player.py', 'Player', 'left'): (['property'], 'self', 'return Player(self.value % 4 + 1)'),
        ('bridge_env/player.py', 'Player', 'partner'): (['property'], 'self', 'return Player((self.value + 1) % 4 + 1)'),
        ('bridge_env/player.py', 'Player', 'pair'): (['property'], 'self', 'return Pair((self.value + 1) % 2 + 1)'),
        ('bridge_env/card.py', 'Card', '__post_init__'):
            ([], 'self', "if self.rank < 2 or 14 < self.rank:\n    raise ValueError('card rank is from 2 to 14')\n"
                         "if self.suit == Suit.NT:\n    raise ValueError('card suit is not NT')"),
        ('bridge_env/contract.py', 'Contract', '__post_init__'):
            ([], 'self', "if self.final_bid == Bid.X or self.final_bid == Bid.XX:\n    raise ValueError('last_bid is a bid or Pass')"),
        ('bridge_env/contract.py', 'Contract', 'is_passed_out'):
            ([], 'self', 'return self.final_bid is Bid.Pass or self.final_bid is None'),
        ('bridge_env/contract.py', 'Contract', 'trump'):
            (['property'], 'self', 'if self.is_passed_out():\n    return None\nassert self.final_bid is not None\nreturn self.final_bid.suit'),
        ('bridge_env/bid.py', 'Bid', 'idx'): (['property'], 'self', 'return self.value - 1'),
        ('bridge_env/bid.py', 'Bid', 'suit'):
            (['property'], 'self', 'if self.value >= 36:\n    return None\nreturn Suit(self.idx % 5 + 1)'),
        ('bridge_env/hands.py', 'Hands', '__init__'):
            ([], 'self, north_hand: Set[Card], east_hand: Set[Card], south_hand: Set[Card], west_hand: Set[Card]',
             'self.north = north_hand\nself.east = east_hand\nself.south = south_hand\nself.west = west_hand'),
        ('bridge_env/hands.py', 'Hands', '__getitem__'):
            ([], 'self, item: Player',
             "if item is Player.N:\n    return self.north\nelif item is Player.E:\n    return self.east\nelif item is Player.S:\n"
             "    return self.south\nelif item is Player.W:\n    return self.west\nraise KeyError('Key must be Player object.')")}
DATACLASSES = {'Card': ('bridge_env/card.py', [('rank', 'int', None), ('suit', 'Suit', None)]),
               'Contract': ('bridge_env/contract.py', [c[:3] for c in gen_auction.CONTRACT])}
ENUM_CTORS = {'Player': gen_auction.ENUMS['Player'], 'Pair': gen_auction.ENUMS['Pair'], 'Suit': gen_auction.ENUMS['Suit'],
              'Bid': gen_auction.ENUMS['Bid']}
PRELUDE = '''(* this file: harness/gen_play.py, one Definition per method of the classes of the source, callees first.
   s: the object state on entry; s'N / b'N / h'N: the state returned by a call; x'N: a value bound by a match *)
From BE Require Import Model.Play.
Local Open Scope nat_scope.
(* fixed prelude - `for i, x in enumerate(l)`: the loop body as a function of the index, the element and the loop-carried locals *)
Fixpoint py_for_enum {A S : Type} (body : Z -> A -> S -> S) (i : Z) (l : list A) (st : S) : S :=
  match l with [] => st | x :: r => py_for_enum body (Z.add i 1) r (body i x st) end.
(* fixed prelude - Contract.trump (pinned text): None when passed out, else the strain of the final bid (Bid.suit, pinned) *)
Definition py_contract_trump (k : contract) : option strain :=
  match final_bid k with None => None | Some (_, st) => Some st end.
'''

_SRC = {}            # overrides: relative path -> file to read instead of the one under the repository


def parse(rel):
    if rel in _SRC:
        try:
            return ast.parse(open(_SRC[rel]).read())
        except (OSError, SyntaxError) as e:
            raise Untranslatable(f'{rel}: {e}')
    return gen.parse(rel)


def ind(text, n=2):
    return '\n'.join(' ' * n + l for l in text.split('\n'))


def is_doc(s):
    return isinstance(s, ast.Expr) and isinstance(s.value, ast.Constant) and isinstance(s.value.value, str)


def self_attr(n):
    if isinstance(n, ast.Attribute) and isinstance(n.value, ast.Name) and n.value.id == 'self':
        return n.attr
    return None


def is_super(n):
    return isinstance(n, ast.Call) and isinstance(n.func, ast.Name) and n.func.id == 'super' and not n.args and not n.keywords


def terminates(ss):
    """Every path through the statement list ends in return/raise/continue."""
    last = ss[-1] if ss else None
    return isinstance(last, (ast.Return, ast.Raise, ast.Continue)) or \
        (isinstance(last, ast.If) and terminates(last.body) and terminates(last.orelse))


def coqty(ty):
    if ty.startswith('o:'):
        return f'option ({COQTY[ty[2:]]})'
    if ty.startswith('obj:'):
        return SHAPES[ty[4:]][0]
    return COQTY[ty]


class V:
    """Translated expression: Gallina term and type.  key: what an `is None` test on it records knowledge under;
    const: the literal it denotes; item: (container V, key V) for `hands[p]`."""
    def __init__(self, term, ty, key=None, const=None, item=None):
        self.term, self.ty, self.key, self.const, self.item = term, ty, key, const, item


class Shape:
    def __init__(self, cls):
        self.cls = cls
        self.ty, self.ctor, self.base, self.basefield, fields, self.ghosts = SHAPES[cls]
        self.attrs = {}                   # attribute -> (field | dict member -> field, type, annotation)
        self.order = [self.basefield] if self.base else []
        for a, f, ty, ann in fields:
            self.attrs[a] = (dict(f) if isinstance(f, tuple) else f, ty, ann)
            self.order += [x for _, x in f] if isinstance(f, tuple) else [f]

    def proj(self, field, var):
        return var if self.ctor is None else f'({field} {var})'


class Env:
    def __init__(self, shape, base, st, know, locs, isinit=False):
        self.shape = shape          # Shape of the class of the method, None in a static method
        self.base = base            # Coq variable that is the current state while no store has happened
        self.st = st                # the current state field by field: field -> term
        self.know = know            # key -> content of an Optional value known to be Some, while no store intervenes
        self.locs = locs            # Python local -> V
        self.isinit = isinit
        self.loop = None            # inside `for .. in enumerate`: continuation of `continue`

    @staticmethod
    def at(shape, var, locs, know=None):
        return Env(shape, var, {f: shape.proj(f, var) for f in shape.order}, dict(know or {}), locs)

    def fork(self):
        e = Env(self.shape, self.base, dict(self.st), dict(self.know), dict(self.locs), self.isinit)
        e.loop = self.loop
        return e

    def state(self):
        if self.base is not None:
            return self.base
        if self.shape.ctor is None:
            return self.st['<self>']
        return f'({self.shape.ctor} ' + ' '.join(self.st[f] for f in self.shape.order) + ')'


class Sig:
    def __init__(self, name, cls, mname, static, params, defaults, M, R, Vv, ret):
        self.name, self.cls, self.mname, self.static, self.params, self.defaults = name, cls, mname, static, params, defaults
        self.M, self.R, self.V, self.ret = M, R, Vv, ret       # params: [(python name, type)]; ret: type of the value


class Translator:
    def __init__(self, tree):
        self.tree = tree
        self.imports, self.classes = {}, {}
        self.sigs, self.busy, self.defs = {}, [], []
        self.eff, self.pinned = {}, set()
        self.shapes = {c: Shape(c) for c in SHAPES}
        self.n = 0
        self.structure()

    def bad(self, node, msg):
        raise Untranslatable(f'{REL}:{getattr(node, "lineno", "?")}: {msg} [{ast.unparse(node)[:70]!r}]')

    def fresh(self, base):
        self.n += 1
        return f"{base}'{self.n}"

    # ---------------------------------------------------------------- the module and its classes
    def structure(self):
        for i, node in enumerate(self.tree.body):
            if isinstance(node, ast.ImportFrom):
                for a in node.names:
                    self.imports[a.asname or a.name] = (node.module or '') if a.asname is None and node.level == 1 else \
                        ('<' + (node.module or '') + '>' if a.asname is None and node.level == 0 else None)
            elif isinstance(node, ast.ClassDef):
                if node.name not in BASES or node.name in self.classes:
                    self.bad(node, f'class {node.name} is outside the subset (or defined twice)')
                if [ast.unparse(b) for b in node.bases] != BASES[node.name] or node.keywords:
                    self.bad(node, f'class {node.name} does not have the bases {BASES[node.name]}')
                self.classes[node.name] = node
            elif not (i == 0 and is_doc(node)):
                self.bad(node, 'module-level statement outside the subset')
        for c in BASES:
            if c not in self.classes:
                raise Untranslatable(f'{REL}: class {c} not found')
        if self.imports.get('dataclass') != '<dataclasses>':
            raise Untranslatable(f'{REL}: dataclass is not imported from dataclasses')
        for name in ('super', 'len', 'list', 'set', 'tuple', 'range', 'enumerate') + EXCEPTIONS:
            if name in self.imports or name in self.classes:
                raise Untranslatable(f'{REL}: the builtin {name} is rebound')
        th = self.classes['TrickHistory']
        body = [s for s in th.body if not is_doc(s)]
        got = [(s.target.id, ast.unparse(s.annotation)) for s in body
               if isinstance(s, ast.AnnAssign) and isinstance(s.target, ast.Name) and s.value is None]
        if [ast.unparse(d) for d in th.decorator_list] != ['dataclass(frozen=True)'] or len(got) != len(body) or got != TRICKHISTORY:
            self.bad(th, 'TrickHistory is not the frozen dataclass (leader: Player, cards: Tuple[Card, ...])')
        self.members = {}
        for c in SHAPES:
            node = self.classes[c]
            if node.decorator_list:
                self.bad(node, 'class decorators')
            self.members[c] = {}
            for m in node.body:
                if is_doc(m):
                    continue
                if not isinstance(m, ast.FunctionDef) or m.name in self.members[c]:
                    self.bad(m, 'class-level statement outside the subset (or a method defined twice)')
                self.members[c][m.name] = m
        # a subclass must not redefine what the base class calls on self (calls are resolved statically)
        for c in SHAPES:
            b = SHAPES[c][2]
            if b:
                called = {n.func.attr for m in self.members[b].values() for n in ast.walk(m)
                          if isinstance(n, ast.Call) and isinstance(n.func, ast.Attribute) and
                          isinstance(n.func.value, ast.Name) and n.func.value.id == 'self'}
                over = called & set(self.members[c])
                if over:
                    self.bad(self.classes[c], f'{c} redefines {sorted(over)}, which {b} calls on self')

    def run(self):
        for c in SHAPES:
            for name, m in self.members[c].items():
                if (c, name) in NAMES:
                    self.sig(c, name, m)
                elif (c, name) in LOCAL_PINS:
                    decos, params, body = LOCAL_PINS[(c, name)]
                    self.same_text(m, decos, params, body, m, f'{c}.{name} is not the pinned text')
                else:           # a read-only view: @property def x(self): return self.<attribute of the table>
                    body = [s for s in m.body if not is_doc(s)]
                    sh = self.shapes[c]
                    if [ast.unparse(d) for d in m.decorator_list] != ['property'] or ast.unparse(m.args) != 'self' or len(body) != 1 \
                            or not isinstance(body[0], ast.Return) or \
                            (self_attr(body[0].value) not in sh.attrs and self_attr(body[0].value) not in sh.ghosts):
                        self.bad(m, f'{c}.{name} is a method the translator does not know (not a read-only property)')
            for key in NAMES:
                if key[0] == c and key[1] not in self.members[c]:
                    raise Untranslatable(f'{REL}: {c}.{key[1]} not found')
        return self.defs

    # ---------------------------------------------------------------- pins on the library
    def same_text(self, m, decos, params, body, node, msg):
        got = [s for s in m.body if not is_doc(s)]
        if [ast.unparse(d) for d in m.decorator_list] != decos or ast.unparse(m.args) != params or \
                gen.alpha_dump(got) != gen.alpha_dump(ast.parse(body).body):
            self.bad(node, msg)

    def pin(self, key, node):
        if key in self.pinned:
            return
        rel, cls, name = key
        decos, params, body = PINS[key]
        for c in gen.parse(rel).body:
            if isinstance(c, ast.ClassDef) and c.name == cls:
                found = [m for m in c.body if isinstance(m, ast.FunctionDef) and m.name == name]
                if len(found) == 1:
                    self.same_text(found[0], decos, params, body, node, f'{rel}: {cls}.{name} is not the text modelled in Model/Basics.v')
                    self.pinned.add(key)
                    return
        self.bad(node, f'{rel}: {cls}.{name} not found (or defined twice)')

    def imported(self, name, node):
        if self.imports.get(name) != IMPORTS[name]:
            self.bad(node, f'{name} is not imported from its module')
        if IMPORTS[name] == '' and ('pkg', name) not in self.pinned:
            ok = [x for x in gen.parse('bridge_env/__init__.py').body if isinstance(x, ast.ImportFrom) and
                  any((a.asname or a.name) == name for a in x.names)]
            if len(ok) != 1 or ok[0].module != PACKAGE[name] or ok[0].level != 1 or \
                    any(a.name == name and a.asname is not None for a in ok[0].names):
                self.bad(node, f'bridge_env/__init__.py does not take {name} from .{PACKAGE[name]}')
            self.pinned.add(('pkg', name))

    def enum(self, cls, node):
        rel, ty, members, ctor = ENUM_CTORS[cls]
        if cls != 'Bid':
            self.imported(cls, node)
        if ('enum', cls) not in self.pinned:
            for c in gen.parse(rel).body:
                if isinstance(c, ast.ClassDef) and c.name == cls:
                    if [ast.unparse(b) for b in c.bases] != ['Enum'] or \
                            any(isinstance(m, ast.FunctionDef) and m.name in ('__eq__', '__ne__', '__hash__') for m in c.body):
                        self.bad(node, f'{rel}: {cls} is not a plain Enum with identity equality')
            if gen.enum_members(rel, cls) != members:
                self.bad(node, f'{rel}: the members of {cls} are not those modelled in Model/Basics.v')
            self.pinned.add(('enum', cls))
        return ty, ctor

    def dataclass(self, cls, node):
        self.imported(cls, node)
        if ('dc', cls) in self.pinned:
            return
        rel, fields = DATACLASSES[cls]
        for c in gen.parse(rel).body:
            if isinstance(c, ast.ClassDef) and c.name == cls:
                got = [(s.target.id, ast.unparse(s.annotation), None if s.value is None else ast.unparse(s.value))
                       for s in c.body if isinstance(s, ast.AnnAssign) and isinstance(s.target, ast.Name)]
                if got != fields or [ast.unparse(d) for d in c.decorator_list] != ['dataclass(frozen=True)'] or c.bases \
                        or any(isinstance(s, ast.FunctionDef) and s.name in ('__init__', '__new__', '__eq__', '__hash__', '__getattr__',
                                                                             '__getattribute__') for s in c.body):
                    self.bad(node, f'{rel}: the dataclass {cls} is not the one modelled in Model/Basics.v')
                self.pin((rel, cls, '__post_init__'), node)
                self.pinned.add(('dc', cls))
                return
        self.bad(node, f'{rel}: class {cls} not found')

    def hands_cls(self, node):
        self.imported('Hands', node)
        self.enum('Player', node)
        self.pin(('bridge_env/hands.py', 'Hands', '__init__'), node), self.pin(('bridge_env/hands.py', 'Hands', '__getitem__'), node)

    # ---------------------------------------------------------------- which definition a call runs
    def lookup(self, cls, name, node):
        c = cls
        while c is not None:
            if name in self.members[c]:
                if (c, name) not in NAMES:
                    self.bad(node, f'{c}.{name} is not a translated method')
                return c
            c = SHAPES[c][2]
        self.bad(node, f'no method {name} in class {cls} or its base')

    def target(self, n, cls):
        """For a call node: (how, defining class, field) with how in self/super/obj, or None when it is not a method call
        of this module."""
        f = n.func
        if not isinstance(f, ast.Attribute):
            return None
        if isinstance(f.value, ast.Name) and f.value.id == 'self':
            return 'self', self.lookup(cls, f.attr, n), None
        if is_super(f.value):
            if SHAPES[cls][2] is None:
                self.bad(n, 'super() in a class without a base')
            return 'super', self.lookup(SHAPES[cls][2], f.attr, n), None
        a = self_attr(f.value)
        if a is not None and a in self.shapes[cls].attrs and self.shapes[cls].attrs[a][1].startswith('obj:'):
            c = self.shapes[cls].attrs[a][1][4:]
            if f.attr not in self.members[c] or (c, f.attr) not in NAMES:
                self.bad(n, f'{c}.{f.attr} is not a translated method')
            return 'obj', c, self.shapes[cls].attrs[a][0]
        return None

    def effects(self, cls, name):
        """(M, R, V) of the method: stores / can raise / returns a value - over its body and the bodies it calls."""
        key = (cls, name)
        if key in self.eff:
            if self.eff[key] is None:
                raise Untranslatable(f'{REL}: {cls}.{name} is recursive')
            return self.eff[key]
        self.eff[key] = None
        M = R = Vv = False
        m = self.members[cls][name]
        for n in ast.walk(m):
            if isinstance(n, (ast.Raise, ast.Assert)):
                R = True
            elif isinstance(n, ast.Return) and n.value is not None:
                Vv = True
            elif isinstance(n, (ast.Assign, ast.AnnAssign, ast.AugAssign)):
                ts = n.targets if isinstance(n, ast.Assign) else [n.target]
                if any(not isinstance(t, ast.Name) for t in ts):
                    M = True
            elif isinstance(n, ast.Subscript) and isinstance(n.ctx, ast.Load) and isinstance(n.slice, ast.Constant):
                R = True
            elif isinstance(n, ast.Call):
                if isinstance(n.func, ast.Attribute) and n.func.attr in ('append', 'add', 'remove') and self.target(n, cls) is None:
                    M = True
                    R = R or n.func.attr == 'remove'
                    continue
                t = self.target(n, cls)
                if t is None and isinstance(n.func, ast.Name) and n.func.id in SHAPES:
                    t = ('new', n.func.id, None)
                if t is not None:
                    m2, r2, _ = self.effects(t[1], '__init__' if t[0] == 'new' else n.func.attr)
                    M, R = M or (m2 and t[0] != 'new'), R or r2
        self.eff[key] = (M, R, Vv)
        return self.eff[key]

    # ---------------------------------------------------------------- methods
    def sig(self, cls, name, node=None):
        key = (cls, name)
        if key in self.sigs:
            return self.sigs[key]
        if key in self.busy:
            raise Untranslatable(f'{REL}: {cls}.{name} is recursive')
        self.busy.append(key)
        fd = self.members[cls][name]
        decos = [ast.unparse(d) for d in fd.decorator_list]
        a = fd.args
        if decos not in ([], ['staticmethod']) or a.posonlyargs or a.kwonlyargs or a.vararg or a.kwarg:
            self.bad(fd, 'decorators or special parameters')
        static = decos == ['staticmethod']
        params = list(a.args)
        if not static:
            if not params or params[0].arg != 'self' or params[0].annotation is not None:
                self.bad(fd, 'the first parameter is not self')
            params = params[1:]
        if name == '__init__' and static:
            self.bad(fd, 'static __init__')
        ptys = []
        for p in params:
            if p.annotation is not None:
                ann = ast.unparse(p.annotation)
                if ann not in ANN:
                    self.bad(p, f'parameter annotation {ann} is outside the subset')
                ty = ANN[ann]
                for cname in ('Player', 'Suit', 'Card', 'Contract', 'Hands'):
                    if cname in ann:
                        self.cls_used(cname, p)
            elif p.arg in UNANN:
                ty = UNANN[p.arg]
            else:
                self.bad(p, 'an unannotated parameter of unknown name')
            if p.arg in ('self', 'super') or p.arg in self.imports or p.arg in self.classes or p.arg in [x for x, _ in ptys]:
                self.bad(p, 'parameter name clashes')
            ptys.append((p.arg, ty))
        M, R, Vv = self.effects(cls, name)
        ret = None
        if Vv:
            ann = ast.unparse(fd.returns) if fd.returns else None
            if ann not in ANN or M or name == '__init__':
                self.bad(fd, 'a method that returns a value must be annotated with a type of the subset and must not store')
            ret = ANN[ann]
        elif fd.returns is not None and ast.unparse(fd.returns) != 'None':
            self.bad(fd, 'a result annotation on a method that returns no value')
        if static and M:
            self.bad(fd, 'a static method that stores')
        self.n = 0
        self.cur = (cls, name)
        defaults = {}
        pre = ''
        gname = NAMES[key]
        for p, d in zip(params[len(params) - len(a.defaults):], a.defaults):
            ty = dict(ptys)[p.arg]
            v = self.coerce(self.expr(d, Env(None, None, {}, {}, {}), None), ty, Env(None, None, {}, {}, {}), d)
            dn = f'{gname}_default_{p.arg}'
            pre += f'(* the default of the parameter {p.arg} *)\nDefinition {dn} : {coqty(ty)} := {v.term}.\n'
            defaults[p.arg] = dn
        sg = Sig(gname, cls, name, static, ptys, defaults, M, R, Vv, ret)
        self.kind = sg
        shape = None if static else self.shapes[cls]
        locs = {p: V('v_' + p, ty, key=('loc', p)) for p, ty in ptys}
        body = [s for i, s in enumerate(fd.body) if not (i == 0 and is_doc(s))]
        binders = ''.join(f' (v_{p} : {coqty(ty)})' for p, ty in ptys)
        if name == '__init__':
            env = Env(shape, None, {}, {}, locs, isinit=True)
            rty = f'option {shape.ty}' if R else shape.ty
            head = f'Definition {gname}{binders} : {rty} :='
        else:
            env = Env.at(shape, 's', locs) if shape else Env(None, None, {}, {}, locs)
            sb = f' (s : {shape.ty})' if shape else ''
            if Vv:
                rty = f'option ({coqty(ret)})' if R else coqty(ret)
            elif M:
                rty = f'{shape.ty} * presult' if R else shape.ty
            else:
                rty = 'presult'
                if not R:
                    self.bad(fd, 'a method without any effect')
            head = f'Definition {gname}{sb}{binders} : {rty} :='
        term = self.seq(body, env, None if Vv else self.end, fd)
        self.busy.pop()
        self.sigs[key] = sg
        self.defs.append(f'(* {cls}.{name} *)\n{pre}{head}\n{ind(term)}.')
        return sg

    def cls_used(self, cname, node):
        if cname in ('Player', 'Suit'):
            self.enum(cname, node)
        elif cname in ('Card', 'Contract'):
            self.dataclass(cname, node)
            if cname == 'Card':
                self.enum('Suit', node)
        elif cname == 'Hands':
            self.hands_cls(node)

    def end(self, env):
        """Control falls off the end of the method (or `return` without a value)."""
        k = self.kind
        if k.mname == '__init__':
            missing = [f for f in env.shape.order if f not in env.st]
            if missing:
                raise Untranslatable(f'{REL}: {k.cls}.__init__ does not store {missing}')
            env.base = None
            return f'Some {env.state()}' if k.R else env.state()
        if k.M:
            return f'({env.state()}, POk)' if k.R else env.state()
        return 'POk'

    def raise_term(self, node, env):
        k = self.kind
        if not k.R:
            self.bad(node, 'internal: a raise in a method analysed as never raising')
        if k.mname == '__init__' or k.V:
            return 'None'
        if k.M:
            return f'({env.state()}, PRaises)'
        return 'PRaises'

    # ---------------------------------------------------------------- statements
    def seq(self, ss, env, k, at):
        """Gallina for: run ss from env, then k(env at the end).  k None: every path must end in return/raise."""
        if not ss:
            if k is None:
                self.bad(at, 'control can reach the end of the method without return')
            return k(env)
        s, rest = ss[0], ss[1:]
        if isinstance(s, ast.Pass) or is_doc(s):
            return self.seq(rest, env, k, s)
        env = env.fork()
        binds = []
        if isinstance(s, ast.Assert):             # assert e  ==  if not e: raise AssertionError
            if s.msg is not None and not isinstance(s.msg, ast.Constant):
                self.bad(s, 'assert message outside the subset')
            r = ast.Raise(None, None)
            r.from_assert = True
            s = ast.copy_location(ast.If(ast.UnaryOp(ast.Not(), s.test), [ast.copy_location(r, s)], []), s)
            ast.fix_missing_locations(s)
        if isinstance(s, (ast.Assign, ast.Return)) and isinstance(s.value, ast.IfExp):       # x = a if c else b
            mk = (lambda v: ast.Return(v)) if isinstance(s, ast.Return) else (lambda v: ast.Assign(s.targets, v))
            s = ast.copy_location(ast.If(s.value.test, [ast.copy_location(mk(s.value.body), s)],
                                         [ast.copy_location(mk(s.value.orelse), s)]), s)
            ast.fix_missing_locations(s)
        if isinstance(s, (ast.Return, ast.Raise, ast.Continue)):
            if rest:
                self.bad(rest[0], 'unreachable code')
            if isinstance(s, ast.Return):
                text = self.ret(s, env, binds, k)
            elif isinstance(s, ast.Continue):
                if env.loop is None:
                    self.bad(s, 'continue outside a loop of the subset')
                text = env.loop(env)
            else:
                self.check_raise(s)
                text = self.raise_term(s, env)
        elif isinstance(s, ast.If):
            text = self.if_(s, rest, env, k, binds)
        elif isinstance(s, ast.For):
            text = self.for_(s, rest, env, k, binds)
        else:
            text = self.simple(s, rest, env, k, binds)
        for scrut, ok, failpat, exc in reversed(binds):
            text = f'match {scrut} with\n| {failpat} => {exc}\n| {ok} =>\n{ind(text, 4)}\nend'
        return text

    def check_raise(self, s):
        if getattr(s, 'from_assert', False):
            return                    # the raise of a desugared assert
        e = s.exc
        if s.cause is not None or not isinstance(e, ast.Call) or not isinstance(e.func, ast.Name) or e.func.id not in EXCEPTIONS \
                or e.keywords:
            self.bad(s, 'raise of anything but a builtin exception with a message')
        for a in e.args:              # the message is not modelled: it must not have effects
            for n in ast.walk(a):
                if isinstance(n, ast.Call) and not (isinstance(n.func, ast.Name) and n.func.id == 'len'):
                    self.bad(s, 'a call inside an exception message')
                if isinstance(n, (ast.NamedExpr, ast.Await, ast.Yield, ast.YieldFrom, ast.Lambda, ast.ListComp, ast.SetComp,
                                  ast.DictComp, ast.GeneratorExp)):
                    self.bad(s, 'exception message outside the subset')

    def ret(self, s, env, binds, k):
        kd = self.kind
        if s.value is None:
            if kd.V or k is None or env.loop is not None:
                self.bad(s, 'return without a value where a value (or a loop iteration) is expected')
            return self.end(env)
        if not kd.V or env.loop is not None:
            self.bad(s, 'return of a value outside the subset')
        v = self.coerce(self.expr(s.value, env, binds), kd.ret, env, s)
        return f'Some {v.term}' if kd.R else v.term

    def if_(self, s, rest, env, k, binds):
        emit, branches = self.decide(s, env, binds)
        texts = []
        for e, b in branches:
            if terminates(b):
                texts.append(self.seq(b, e, None, s))
            else:
                texts.append(self.seq(b + rest, e, k, s))
        if rest and all(terminates(b) for _, b in branches):
            self.bad(rest[0], 'unreachable code')
        return emit(texts)

    def decide(self, s, env, binds):
        c = self.cond(s.test, env, binds)
        if c[0] == 'bool':
            return (lambda ts: f'if {c[1]} then\n{ind(ts[0])}\nelse\n{ind(ts[1])}'), [(env.fork(), s.body), (env.fork(), s.orelse)]
        _, v, flip = c                        # `v is None` (flip: `is not None`)
        none_env, some_env = env.fork(), env.fork()
        x = self.fresh('x')
        if v.key is not None:
            some_env.know[v.key] = x
            none_env.know.pop(v.key, None)
        ne, so = (1, 0) if flip else (0, 1)
        bs = [None, None]
        bs[ne], bs[so] = (none_env, s.body if ne == 0 else s.orelse), (some_env, s.body if so == 0 else s.orelse)
        return (lambda ts: f'match {v.term} with\n| None =>\n{ind(ts[ne], 4)}\n| Some {x} =>\n{ind(ts[so], 4)}\nend'), bs

    def store_field(self, env, field, term):
        env.st[field] = term
        env.base = None
        env.know.pop(('fld', field), None)

    def attr_info(self, node, env, attr):
        """(field, type, annotation, where) of self.<attr>: where = None (own field) or the field holding the base part."""
        sh = env.shape
        if sh is None:
            self.bad(node, 'self in a static method')
        if attr in sh.attrs:
            return sh.attrs[attr] + (None,)
        if sh.base and attr in self.shapes[sh.base].attrs:
            return self.shapes[sh.base].attrs[attr] + (sh.basefield,)
        self.bad(node, f'attribute {attr} is not in the table of record fields')

    def simple(self, s, rest, env, k, binds):
        go = lambda: self.seq(rest, env, k, s)
        if isinstance(s, (ast.Assign, ast.AnnAssign)):
            if s.value is None or (isinstance(s, ast.Assign) and len(s.targets) != 1):
                self.bad(s, 'assignment outside the subset')
            t = s.targets[0] if isinstance(s, ast.Assign) else s.target
            attr = self_attr(t)
            if attr is not None:
                sh = env.shape
                if sh is not None and attr in sh.ghosts:        # not modelled: only `self.x = <parameter>` in __init__
                    if not env.isinit or isinstance(s, ast.AnnAssign) or not isinstance(s.value, ast.Name) or \
                            s.value.id not in env.locs or attr in env.st:
                        self.bad(s, f'{attr} is not modelled: it may only be set once, in __init__, from a parameter')
                    env.st[attr] = None
                    return go()
                field, ty, ann, where = self.attr_info(s, env, attr)
                if where is not None:
                    self.bad(s, 'a store into an attribute of the base class from a subclass')
                if env.isinit:
                    if (ast.unparse(s.annotation) if isinstance(s, ast.AnnAssign) else None) != ann:
                        self.bad(s, f'{attr} is not created with the annotation {ann}')
                    if any(f in env.st for f in (field.values() if isinstance(field, dict) else [field])):
                        self.bad(s, f'{attr} is stored twice in __init__')
                elif isinstance(s, ast.AnnAssign):
                    self.bad(s, 'an annotated store outside __init__')
                if ty.startswith('dict:'):
                    for m, term in self.dict_display(s.value, ty, env, binds).items():
                        self.store_field(env, field[m], term)
                    return go()
                if ty.startswith('obj:'):
                    if not (isinstance(s.value, ast.Call) and isinstance(s.value.func, ast.Name) and s.value.func.id == ty[4:]):
                        self.bad(s, f'{attr} must hold a new {ty[4:]}')
                v = self.coerce(self.expr(s.value, env, binds), ty, env, s)
                self.store_field(env, field, v.term)
                if ty.startswith('o:') and v.key == 'some':
                    env.know[('fld', field)] = v.const
                return go()
            if isinstance(s, ast.AnnAssign):
                self.bad(s, 'annotated assignment to anything but an attribute')
            if isinstance(t, ast.Name):
                v = self.expr(s.value, env, binds)
                self.local_name(t.id, s)
                env.know = {kk: c for kk, c in env.know.items() if kk[0] != 'expr'}      # what was known of `<local>.attr`
                if v.ty in ('nat', 'lit'):                   # an integer local is a Python integer
                    v = self.coerce(v, 'Z', env, s)
                if v.ty in ('none', 'emptylist', 'emptyset'):
                    env.locs[t.id] = V(v.term, v.ty, key=('loc', t.id), const=v.const)
                    env.know.pop(('loc', t.id), None)
                    return go()
                name = 'v_' + t.id if t.id not in env.locs else self.fresh('v_' + t.id)
                env.locs[t.id] = V(name, v.ty, key=('loc', t.id))
                env.know.pop(('loc', t.id), None)
                return f'let {name} := {v.term} in\n' + go()
            self.bad(s, 'assignment target outside the subset')
        if isinstance(s, ast.AugAssign):
            if not isinstance(s.op, ast.Add):
                self.bad(s, 'augmented assignment other than +=')
            attr = self_attr(s.target)
            if attr is not None:
                field, ty, _, where = self.attr_info(s, env, attr)
                if where is not None or ty != 'nat' or env.isinit:
                    self.bad(s, '+= on anything but a natural field of this class')
                cur = self.read(s.target, attr, env)
                v = self.coerce(self.expr(s.value, env, binds), 'nat', env, s)
                self.store_field(env, field, f'({cur.term} + {v.term})')
                return go()
            t = s.target
            if isinstance(t, ast.Subscript) and self_attr(t.value) is not None:
                field, ty, _, where = self.attr_info(s, env, self_attr(t.value))
                if where is None and ty.startswith('dict:') and not env.isinit:
                    _, ecls, vty = ty.split(':')
                    ety, ctor = self.enum(ecls, s)
                    key = self.coerce(self.expr(t.slice, env, binds), ety, env, s)          # d[k] += e : k, d[k], e
                    for f in field.values():
                        if f not in env.st:
                            self.bad(s, 'read before the store')
                    v = self.coerce(self.expr(s.value, env, binds), vty, env, s)
                    new = {}
                    for m, f in field.items():
                        arms = ' | '.join(f'{ctor[m2]} => ' + (f'{env.st[f]} + {v.term}' if m2 == m else env.st[f]) for m2 in field)
                        new[f] = f'(match {key.term} with {arms} end)'
                    for f, term in new.items():
                        self.store_field(env, f, term)
                    return go()
            self.bad(s, '+= target outside the subset')
        if isinstance(s, ast.Expr) and isinstance(s.value, ast.Call):
            n = s.value
            f = n.func
            tg = self.target(n, self.cur[0]) if env.shape is not None else None
            if tg is not None:
                return self.call_stmt(n, tg, rest, env, k, binds, s)
            if isinstance(f, ast.Attribute) and f.attr in ('append', 'add', 'remove') and len(n.args) == 1 and not n.keywords:
                return self.container_op(s, n, rest, env, k, binds)
        self.bad(s, f'statement {type(s).__name__} is outside the subset')

    def local_name(self, name, node):
        if name in ('self', 'super', '_') or name in self.imports or name in self.classes or name in ENUM_CTORS:
            self.bad(node, 'a local of this name')

    def dict_display(self, n, ty, env, binds):
        _, ecls, vty = ty.split(':')
        ety, ctor = self.enum(ecls, n)
        if not isinstance(n, ast.Dict) or any(k is None for k in n.keys):
            self.bad(n, 'a dict display is needed')
        out = {}
        for kn, vn in zip(n.keys, n.values):
            if not (isinstance(kn, ast.Attribute) and isinstance(kn.value, ast.Name) and kn.value.id == ecls and kn.attr in ctor) \
                    or kn.attr in out:
                self.bad(n, f'the keys must be members of {ecls}, each once')
            out[kn.attr] = self.coerce(self.expr(vn, env, binds), vty, env, n).term
        if set(out) != set(ctor):
            self.bad(n, f'the keys must be all the members of {ecls}')
        return out

    def container_op(self, s, n, rest, env, k, binds):
        f = n.func
        op, r = f.attr, f.value
        attr = self_attr(r)
        if env.isinit:
            self.bad(s, 'a container operation in __init__')
        if attr is not None:
            field, ty, _, where = self.attr_info(s, env, attr)
            if where is not None:
                self.bad(s, 'a store into an attribute of the base class from a subclass')
            cur = self.read(r, attr, env)
            if op == 'append' and ty == 'clist':              # the trick: play order
                a = self.coerce(self.expr(n.args[0], env, binds), 'card', env, s)
                self.store_field(env, field, f'({cur.term} ++ [{a.term}])')
                return self.seq(rest, env, k, s)
            if op == 'append' and ty == 'hist':               # the history: newest first
                a = self.coerce(self.expr(n.args[0], env, binds), 'trickhist', env, s)
                self.store_field(env, field, f'({a.term} :: {cur.term})')
                return self.seq(rest, env, k, s)
            if op == 'add' and ty == 'cset':
                a = self.coerce(self.expr(n.args[0], env, binds), 'card', env, s)
                self.store_field(env, field, f'({a.term} :: {cur.term})')
                return self.seq(rest, env, k, s)
            if op == 'remove' and ty in ('cset', 'o:cset'):   # set.remove: KeyError when absent
                h = self.coerce(cur, 'cset', env, s)
                a = self.coerce(self.expr(n.args[0], env, binds), 'card', env, s)
                exc = self.raise_term(s, env)
                new = f'(remove_card {h.term} {a.term})'
                self.store_field(env, field, f'(Some {new})' if ty == 'o:cset' else new)
                if ty == 'o:cset':
                    env.know[('fld', field)] = new
                return f'if has_card {h.term} {a.term} then\n{ind(self.seq(rest, env, k, s))}\nelse\n{ind(exc)}'
        if op == 'remove' and isinstance(r, ast.Subscript):
            h = self.expr(r, env, binds)
            if h.item is not None and h.ty == 'cset' and h.item[0].key and h.item[0].key[0] == 'fld':
                a = self.coerce(self.expr(n.args[0], env, binds), 'card', env, s)
                exc = self.raise_term(s, env)
                d, key = h.item
                q = self.fresh('q')
                self.store_field(env, d.key[1], f'(fun {q} => if seat_beq {q} {key.term} then remove_card ({d.term} {q}) {a.term} '
                                                f'else {d.term} {q})')
                return f'if has_card {h.term} {a.term} then\n{ind(self.seq(rest, env, k, s))}\nelse\n{ind(exc)}'
        self.bad(s, 'container operation outside the subset')

    def call_state(self, tg, env, node):
        """(state term passed to the callee, function installing the returned state variable) for a non-static callee."""
        how, dcls, field = tg
        if how == 'obj':
            if field not in env.st:
                self.bad(node, 'read before the store')
            return env.st[field], lambda v: self.store_field(env, field, v)
        if dcls == env.shape.cls:
            def whole(v):
                env.base = v
                env.st = {f: env.shape.proj(f, v) for f in env.shape.order}
                env.know = {kk: c for kk, c in env.know.items() if kk[0] != 'fld'}
            return env.state(), whole
        bf = env.shape.basefield
        if bf not in env.st:
            self.bad(node, 'the base class part is used before super().__init__')
        return env.st[bf], lambda v: self.store_field(env, bf, v)

    def call_stmt(self, n, tg, rest, env, k, binds, s):
        how, dcls, field = tg
        mname = n.func.attr
        if mname == '__init__':
            if how != 'super' or not env.isinit or env.shape.basefield in env.st:
                self.bad(s, '__init__ is called outside `super().__init__(..)` at the start of __init__')
            sg = self.callee(dcls, mname)
            args = self.args(n, sg, env, binds)
            v = self.fresh('b')
            call = ' '.join([sg.name] + args)
            env.st[env.shape.basefield] = v
            if sg.R:
                return f'match {call} with\n| None => {self.raise_term(s, env)}\n| Some {v} =>\n{ind(self.seq(rest, env, k, s), 4)}\nend'
            return f'let {v} := {call} in\n' + self.seq(rest, env, k, s)
        if env.isinit:
            self.bad(s, 'a method call in __init__')
        sg = self.callee(dcls, mname)
        args = self.args(n, sg, env, binds)
        if sg.V:
            self.bad(s, 'the value of a call is dropped')
        if sg.static:
            st, install = None, None
        else:
            st, install = self.call_state(tg, env, s)
        call = ' '.join([sg.name] + ([st] if st is not None else []) + args)
        if not sg.M:                         # a check: raises or not
            exc = self.raise_term(s, env)
            return f'match {call} with\n| PRaises => {exc}\n| POk =>\n{ind(self.seq(rest, env, k, s), 4)}\nend'
        v = self.fresh({'obj': 'h', 'self': 's', 'super': 'b'}[how] if dcls != env.shape.cls or how == 'obj' else 's')
        install(v)
        if sg.R:
            exc = self.raise_term(s, env)
            return f'match {call} with\n| ({v}, PRaises) => {exc}\n| ({v}, POk) =>\n{ind(self.seq(rest, env, k, s), 4)}\nend'
        return f'let {v} := {call} in\n' + self.seq(rest, env, k, s)

    def callee(self, cls, mname):
        saved = (self.n, self.cur, self.kind)
        sg = self.sig(cls, mname)
        self.n, self.cur, self.kind = saved
        return sg

    def args(self, n, sg, env, binds):
        names = [p for p, _ in sg.params]
        if len(n.args) > len(names) or any(kw.arg is None for kw in n.keywords) or any(isinstance(a, ast.Starred) for a in n.args):
            self.bad(n, 'argument list outside the subset')
        given = {}
        for name, a in [(names[i], a) for i, a in enumerate(n.args)] + [(kw.arg, kw.value) for kw in n.keywords]:
            if name in given or name not in names:
                self.bad(n, f'argument {name} repeated or unknown')
            given[name] = self.coerce(self.expr(a, env, binds), dict(sg.params)[name], env, n).term      # in source order
        out = []
        for name in names:
            if name in given:
                out.append(given[name])
            elif name in sg.defaults:
                out.append(sg.defaults[name])
            else:
                self.bad(n, f'missing argument {name}')
        return out

    # ---------------------------------------------------------------- loops
    def for_(self, s, rest, env, k, binds):
        if s.orelse or env.isinit or env.loop is not None:
            self.bad(s, 'loop outside the subset')
        for x in ast.walk(s):
            if isinstance(x, (ast.Return, ast.Raise, ast.Break, ast.While, ast.Assert)) or (isinstance(x, ast.For) and x is not s):
                self.bad(x, 'return/raise/break/loop inside a loop')
        it = s.iter
        if not (isinstance(it, ast.Call) and isinstance(it.func, ast.Name) and len(it.args) == 1 and not it.keywords):
            self.bad(s, 'loop outside `for i, x in enumerate(l)` / `for _ in range(e)`')
        if it.func.id == 'enumerate' and isinstance(s.target, ast.Tuple) and len(s.target.elts) == 2 \
                and all(isinstance(e, ast.Name) for e in s.target.elts):
            iname, xname = s.target.elts[0].id, s.target.elts[1].id
            l = self.coerce(self.expr(it.args[0], env, binds), 'clist', env, s)
            carried = []
            for x in ast.walk(s):
                if isinstance(x, (ast.AugAssign, ast.AnnAssign, ast.NamedExpr, ast.Delete)) or \
                        (isinstance(x, ast.Assign) and not (len(x.targets) == 1 and isinstance(x.targets[0], ast.Name))) or \
                        (isinstance(x, ast.Expr) and not is_doc(x)):
                    self.bad(x, 'the body of an enumerate loop may only assign locals')
                if isinstance(x, ast.Assign) and x.targets[0].id not in carried:
                    carried.append(x.targets[0].id)
            for c in carried + [iname, xname]:
                self.local_name(c, s)
            if iname in carried or xname in carried or iname == xname or iname in env.locs or xname in env.locs:
                self.bad(s, 'the loop variables are assigned or shadow a local')
            for c in carried:
                if c not in env.locs or env.locs[c].ty not in ('Z', 'lit'):
                    self.bad(s, f'the loop-carried local {c} is not an integer set before the loop')
            if not carried:
                self.bad(s, 'a loop without effect')
            inits = [self.coerce(env.locs[c], 'Z', env, s).term for c in carried]
            body_env = env.fork()
            bnames = [self.fresh('v_' + c) for c in carried]
            for c, b in zip(carried, bnames):
                body_env.locs[c] = V(b, 'Z', key=('loc', c))
            body_env.locs[iname] = V('v_' + iname, 'Z')
            body_env.locs[xname] = V('v_' + xname, 'card')
            tup = lambda ts: ts[0] if len(ts) == 1 else '(' + ', '.join(ts) + ')'

            def kont(e):
                return tup([self.coerce(e.locs[c], 'Z', e, s).term for c in carried])
            body_env.loop = kont
            body = self.seq(s.body, body_env, kont, s)
            pat = bnames[0] if len(carried) == 1 else "'" + tup(bnames)
            after = [self.fresh('v_' + c) for c in carried]
            for c, b in zip(carried, after):
                env.locs[c] = V(b, 'Z', key=('loc', c))
            lhs = after[0] if len(carried) == 1 else "'" + tup(after)
            return f'let {lhs} := py_for_enum (fun v_{iname} v_{xname} {pat} =>\n{ind(body, 6)})\n    0%Z {l.term} {tup(inits)} in\n' + \
                self.seq(rest, env, k, s)
        if it.func.id == 'range' and isinstance(s.target, ast.Name):
            cnt = self.expr(it.args[0], env, binds)
            if cnt.ty in ('nat', 'lit'):
                times = cnt.term
            else:
                times = f'(Z.to_nat {self.coerce(cnt, "Z", env, s).term})'
            if any(isinstance(x, ast.Name) and x.id == s.target.id for b in s.body for x in ast.walk(b)):
                self.bad(s, 'the counter of a range loop is used')
            fields = []
            for b in s.body:
                a = self_attr(b.targets[0]) if isinstance(b, ast.Assign) and len(b.targets) == 1 else None
                if a is None:
                    self.bad(b, 'the body of a range loop may only store attributes')
                field, ty, _, where = self.attr_info(b, env, a)
                if where is not None or ty not in ('seat', 'nat'):
                    self.bad(b, 'the body of a range loop stores something other than a seat or natural field of this class')
                if field not in fields:
                    fields.append(field)
            tys = {self.shapes[self.cur[0]].attrs[a][0]: self.shapes[self.cur[0]].attrs[a][1] for a in self.shapes[self.cur[0]].attrs
                   if not isinstance(self.shapes[self.cur[0]].attrs[a][0], dict)}
            inits = [env.st[f] for f in fields]
            body_env = env.fork()
            bnames = [self.fresh('x') for _ in fields]
            for f, b in zip(fields, bnames):
                body_env.st[f] = b
            body_env.base = None
            for b in s.body:
                bb = []
                v = self.coerce(self.expr(b.value, body_env, bb), tys[self.attr_info(b, env, self_attr(b.targets[0]))[0]], body_env, b)
                if bb:
                    self.bad(b, 'an expression that can raise inside a range loop')
                self.store_field(body_env, self.attr_info(b, env, self_attr(b.targets[0]))[0], v.term)
            tup = lambda ts: ts[0] if len(ts) == 1 else '(' + ', '.join(ts) + ')'
            pat = bnames[0] if len(fields) == 1 else "'" + tup(bnames)
            after = [self.fresh('l') for _ in fields]
            lhs = after[0] if len(fields) == 1 else "'" + tup(after)
            text = f'let {lhs} := Nat.iter {times} (fun {pat} => {tup([body_env.st[f] for f in fields])}) {tup(inits)} in\n'
            for f, a in zip(fields, after):
                self.store_field(env, f, a)
            return text + self.seq(rest, env, k, s)
        self.bad(s, 'loop outside `for i, x in enumerate(l)` / `for _ in range(e)`')

    # ---------------------------------------------------------------- tests
    def cond(self, n, env, binds):
        """('bool', term) or ('opt', V, flip): `V is None`, flip for `is not None`."""
        if isinstance(n, ast.UnaryOp) and isinstance(n.op, ast.Not):
            c = self.cond(n.operand, env, binds)
            if c[0] == 'bool':
                return 'bool', f'(negb {c[1]})'
            return 'opt', c[1], not c[2]
        if isinstance(n, ast.Compare):
            return self.compare(n, env, binds)
        v = self.expr(n, env, binds)
        if v.ty != 'bool':
            self.bad(n, f'a test of type {v.ty} is outside the subset')
        return 'bool', v.term

    def to_bool(self, c):
        if c[0] == 'bool':
            return c[1]
        t, f = ('false', 'true') if c[2] else ('true', 'false')
        return f'match {c[1].term} with None => {t} | Some _ => {f} end'

    def compare(self, n, env, binds):
        if len(n.ops) != 1:
            self.bad(n, 'chained comparison')
        op, l, r = n.ops[0], n.left, n.comparators[0]
        neg = isinstance(op, (ast.IsNot, ast.NotEq, ast.NotIn))
        wrap = lambda t: ('bool', f'(negb {t})' if neg else t)
        if isinstance(op, (ast.In, ast.NotIn)):
            a = self.coerce(self.expr(l, env, binds), 'card', env, n)
            h = self.coerce(self.expr(r, env, binds), 'cset', env, n)
            return wrap(f'(has_card {h.term} {a.term})')
        if isinstance(op, (ast.Is, ast.IsNot, ast.Eq, ast.NotEq)):
            if isinstance(r, ast.Constant) and r.value is None:
                v = self.expr(l, env, binds)
                if isinstance(op, (ast.Is, ast.IsNot)) and v.ty.startswith('o:'):
                    if v.key in env.know:
                        self.bad(n, 'a test against None of a value known not to be None')
                    return 'opt', v, neg
                self.bad(n, f'comparison of a {v.ty} with None')
            a, b = self.expr(l, env, binds), self.expr(r, env, binds)
            enums = ('seat', 'side', 'strain', 'suit')
            if a.ty in enums and b.ty in enums:
                if {a.ty, b.ty} == {'suit', 'strain'}:
                    a, b = self.coerce(a, 'strain', env, n), self.coerce(b, 'strain', env, n)
                if a.ty == b.ty:
                    return wrap(f'({a.ty}_beq {a.term} {b.term})')
            ints = ('nat', 'Z', 'lit')
            if isinstance(op, (ast.Eq, ast.NotEq)) and a.ty in ints and b.ty in ints:
                if 'Z' in (a.ty, b.ty):
                    return wrap(f'(Z.eqb {self.coerce(a, "Z", env, n).term} {self.coerce(b, "Z", env, n).term})')
                return wrap(f'({self.coerce(a, "nat", env, n).term} =? {self.coerce(b, "nat", env, n).term})')
            self.bad(n, f'comparison of a {a.ty} with a {b.ty}')
        fmt = {ast.Lt: ('({0} <? {1})', '(Z.ltb {0} {1})'), ast.LtE: ('({0} <=? {1})', '(Z.leb {0} {1})'),
               ast.Gt: ('({1} <? {0})', '(Z.ltb {1} {0})'), ast.GtE: ('({1} <=? {0})', '(Z.leb {1} {0})')}.get(type(op))
        if fmt is None:
            self.bad(n, f'comparison {type(op).__name__} is outside the subset')
        a, b = self.expr(l, env, binds), self.expr(r, env, binds)
        if a.ty not in ('nat', 'Z', 'lit') or b.ty not in ('nat', 'Z', 'lit'):
            self.bad(n, 'ordering of anything but integers')
        if 'Z' in (a.ty, b.ty):
            return 'bool', fmt[1].format(self.coerce(a, 'Z', env, n).term, self.coerce(b, 'Z', env, n).term)
        return 'bool', fmt[0].format(self.coerce(a, 'nat', env, n).term, self.coerce(b, 'nat', env, n).term)

    # ---------------------------------------------------------------- expressions
    def read(self, node, attr, env):
        sh = env.shape
        if sh is not None and attr in sh.ghosts:
            self.bad(node, f'{attr} is not modelled: it cannot be read')
        field, ty, _, where = self.attr_info(node, env, attr)
        if isinstance(field, dict) or ty.startswith('dict:'):
            self.bad(node, 'the dict is read otherwise than by `d[k] += e`')
        if where is not None:
            if where not in env.st:
                self.bad(node, 'the base class part is used before super().__init__')
            return V(self.shapes[sh.base].proj(field, env.st[where]), ty)
        if field not in env.st:
            self.bad(node, f'{attr} is read before __init__ stores it')
        return V(env.st[field], ty, key=('fld', field))

    def coerce(self, v, ty, env, node):
        if v.ty == ty:
            return v
        if v.ty == 'lit' and ty == 'nat':
            return V(v.term, 'nat', const=v.const)
        if v.ty == 'lit' and ty == 'Z':
            return V(f'{v.term}%Z', 'Z', const=v.const)
        if v.ty == 'nat' and ty == 'Z':
            return V(f'(Z.of_nat {v.term})', 'Z')
        if v.ty == 'suit' and ty == 'strain':
            return V(f'(Tr {v.term})', 'strain')
        if ty.startswith('o:'):
            if v.ty == 'none':
                return V('None', ty)
            try:
                inner = self.coerce(v, ty[2:], env, node)
            except Untranslatable:
                inner = None
            if inner is not None:
                return V(f'(Some {inner.term})', ty, key='some', const=inner.term)
        if v.ty == 'o:' + ty or (v.ty.startswith('o:') and v.ty != ty):
            if v.key is not None and v.key in env.know:
                return self.coerce(V(env.know[v.key], v.ty[2:]), ty, env, node)
            if v.key == 'some':
                return self.coerce(V(v.const, v.ty[2:]), ty, env, node)
            self.bad(node, 'an Optional value is used as an object where no `is None` test covers it')
        if (v.ty, ty) in (('emptylist', 'clist'), ('emptylist', 'hist'), ('emptyset', 'cset')):
            return V('[]', ty)
        self.bad(node, f'a {v.ty} where a {ty} is needed')

    def expr(self, n, env, binds):
        if isinstance(n, ast.Constant):
            if n.value is None:
                return V('None', 'none')
            if type(n.value) is bool:
                return V('true' if n.value else 'false', 'bool')
            if type(n.value) is int and n.value >= 0:
                return V(str(n.value), 'lit', const=n.value)
            self.bad(n, 'literal outside the subset')
        if isinstance(n, ast.UnaryOp) and isinstance(n.op, ast.USub) and isinstance(n.operand, ast.Constant) \
                and type(n.operand.value) is int and n.operand.value > 0:
            return V(f'(-{n.operand.value})%Z', 'Z', const=-n.operand.value)
        if isinstance(n, ast.Name):
            if n.id in env.locs:
                return env.locs[n.id]
            self.bad(n, 'not a parameter or local')
        if isinstance(n, (ast.Compare,)) or (isinstance(n, ast.UnaryOp) and isinstance(n.op, ast.Not)):
            return V(self.to_bool(self.cond(n, env, binds)), 'bool')
        if isinstance(n, ast.BinOp) and isinstance(n.op, (ast.Add, ast.Sub)):
            a, b = self.expr(n.left, env, binds), self.expr(n.right, env, binds)
            if a.ty not in ('nat', 'Z', 'lit') or b.ty not in ('nat', 'Z', 'lit'):
                self.bad(n, 'arithmetic on anything but integers')
            if isinstance(n.op, ast.Add) and 'Z' not in (a.ty, b.ty):
                return V(f'({self.coerce(a, "nat", env, n).term} + {self.coerce(b, "nat", env, n).term})', 'nat')
            fn = 'Z.add' if isinstance(n.op, ast.Add) else 'Z.sub'         # a difference may be negative: computed in Z
            return V(f'({fn} {self.coerce(a, "Z", env, n).term} {self.coerce(b, "Z", env, n).term})', 'Z')
        if isinstance(n, ast.Attribute):
            attr = self_attr(n)
            if attr is not None:
                return self.read(n, attr, env)
            if isinstance(n.value, ast.Name) and n.value.id in ('Player', 'Pair', 'Suit') and n.value.id not in env.locs:
                ty, ctor = self.enum(n.value.id, n)
                if n.attr not in ctor:
                    self.bad(n, f'{n.value.id}.{n.attr} is not a member')
                return V(ctor[n.attr], ty, const=n.attr)
            o = self.expr(n.value, env, binds)
            if o.ty.startswith('o:') and o.ty != 'o:cset':
                o = self.coerce(o, o.ty[2:], env, n)
            if o.ty == 'seat' and n.attr in ('next_player', 'partner', 'pair'):
                self.enum('Player', n), self.enum('Pair', n)
                if n.attr == 'next_player':
                    self.pin(('bridge_env/player.py', 'Player', 'next_player'), n), self.pin(('bridge_env/player.py', 'Player', 'left'), n)
                    return V(f'(next {o.term})', 'seat')
                self.pin(('bridge_env/player.py', 'Player', n.attr), n)
                return V(f'(partner {o.term})', 'seat') if n.attr == 'partner' else V(f'(side_of {o.term})', 'side')
            if o.ty == 'card' and n.attr in ('suit', 'rank'):
                self.cls_used('Card', n)
                return V(f'(csuit {o.term})', 'suit') if n.attr == 'suit' else V(f'(rank_val (crank {o.term}))', 'nat')
            if o.ty == 'contract' and n.attr in ('trump', 'declarer'):
                self.cls_used('Contract', n), self.enum('Bid', n)
                key = ('expr', ast.unparse(n))
                if n.attr == 'declarer':
                    self.enum('Player', n)
                    return V(f'(cdeclarer {o.term})', 'o:seat', key=key)
                self.enum('Suit', n)
                for name in ('trump', 'is_passed_out'):
                    self.pin(('bridge_env/contract.py', 'Contract', name), n)
                self.pin(('bridge_env/bid.py', 'Bid', 'suit'), n), self.pin(('bridge_env/bid.py', 'Bid', 'idx'), n)
                return V(f'(py_contract_trump {o.term})', 'o:strain', key=key)
            self.bad(n, f'attribute {n.attr} of a {o.ty} is outside the subset')
        if isinstance(n, ast.Subscript):
            o = self.expr(n.value, env, binds)
            if o.ty == 'clist' and isinstance(n.slice, ast.Constant) and type(n.slice.value) is int and n.slice.value >= 0:
                x = self.fresh('x')                          # IndexError when out of range
                binds.append((f'nth_error {o.term} {n.slice.value}', f'Some {x}', 'None', self.raise_term(n, env)))
                return V(x, 'card')
            if o.ty == 'hands':
                self.hands_cls(n)
                key = self.coerce(self.expr(n.slice, env, binds), 'seat', env, n)
                return V(f'({o.term} {key.term})', 'cset', item=(o, key))
            self.bad(n, f'subscript of a {o.ty} is outside the subset')
        if isinstance(n, ast.SetComp):                       # {x for x in S if test}
            g = n.generators[0]
            if len(n.generators) != 1 or g.is_async or len(g.ifs) != 1 or not isinstance(g.target, ast.Name) \
                    or not isinstance(n.elt, ast.Name) or n.elt.id != g.target.id:
                self.bad(n, 'set comprehension outside `{x for x in S if test}`')
            self.local_name(g.target.id, n)
            h = self.coerce(self.expr(g.iter, env, binds), 'cset', env, n)
            x = self.fresh('x')
            e2, bb = env.fork(), []
            e2.locs[g.target.id] = V(x, 'card')
            test = self.to_bool(self.cond(g.ifs[0], e2, bb))
            if bb:
                self.bad(n, 'a filter that can raise')
            return V(f'(filter (fun {x} => {test}) {h.term})', 'cset')
        if isinstance(n, ast.Call):
            return self.call(n, env, binds)
        self.bad(n, f'expression {type(n).__name__} is outside the subset')

    def call(self, n, env, binds):
        f = n.func
        if isinstance(f, ast.Name) and f.id not in env.locs:
            plain = not n.keywords and not any(isinstance(a, ast.Starred) for a in n.args)
            if f.id in ('list', 'set') and plain and not n.args:
                return V('[]', 'empty' + f.id)
            if f.id == 'len' and plain and len(n.args) == 1:
                a = self.expr(n.args[0], env, binds)
                if a.ty not in ('clist', 'cset', 'ctuple', 'hist'):
                    self.bad(n, f'len of a {a.ty}')
                return V(f'(length {a.term})', 'nat')
            if f.id == 'tuple' and plain and len(n.args) == 1:
                a = self.coerce(self.expr(n.args[0], env, binds), 'clist', env, n)
                return V(a.term, 'ctuple')                   # an immutable copy: the same value
            if f.id == 'TrickHistory':
                names = [x for x, _ in TRICKHISTORY]
                if len(n.args) > 2 or any(kw.arg not in names for kw in n.keywords):
                    self.bad(n, 'argument list outside the subset')
                given = {}
                for name, a in [(names[i], a) for i, a in enumerate(n.args)] + [(kw.arg, kw.value) for kw in n.keywords]:
                    if name in given:
                        self.bad(n, f'argument {name} repeated')
                    given[name] = self.coerce(self.expr(a, env, binds), {'leader': 'seat', 'cards': 'ctuple'}[name], env, n).term
                if set(given) != set(names):
                    self.bad(n, 'missing argument')
                self.enum('Player', n), self.cls_used('Card', n)
                return V(f'({given["leader"]}, {given["cards"]})', 'trickhist')
            if f.id in SHAPES:
                sg = self.callee(f.id, '__init__')
                args = self.args(n, sg, env, binds)
                call = ' '.join([sg.name] + args)
                if sg.R:
                    x = self.fresh('h')
                    binds.append((call, f'Some {x}', 'None', self.raise_term(n, env)))
                    return V(x, 'obj:' + f.id)
                return V(f'({call})', 'obj:' + f.id)
            self.bad(n, 'call outside the subset')
        if isinstance(f, ast.Attribute) and f.attr == 'is_passed_out' and not n.args and not n.keywords and \
                not (isinstance(f.value, ast.Name) and f.value.id == 'self') and not is_super(f.value):
            o = self.expr(f.value, env, binds)
            if o.ty == 'contract':
                self.cls_used('Contract', n), self.enum('Bid', n)
                self.pin(('bridge_env/contract.py', 'Contract', 'is_passed_out'), n)
                return V(f'(is_passed_out {o.term})', 'bool')
        tg = self.target(n, self.cur[0]) if env.shape is not None else None
        if tg is None and env.shape is None and isinstance(f, ast.Attribute) and isinstance(f.value, ast.Name) and f.value.id == 'self':
            self.bad(n, 'self in a static method')
        if tg is not None:
            how, dcls, field = tg
            if env.isinit:
                self.bad(n, 'a method call in __init__')
            sg = self.callee(dcls, f.attr)
            if not sg.V:
                self.bad(n, 'a call without a value is used as a value')
            args = self.args(n, sg, env, binds)
            st = [] if sg.static else [self.call_state(tg, env, n)[0]]
            call = ' '.join([sg.name] + st + args)
            if sg.R:
                x = self.fresh('x')
                binds.append((call, f'Some {x}', 'None', self.raise_term(n, env)))
                return V(x, sg.ret)
            return V(f'({call})', sg.ret)
        self.bad(n, 'call outside the subset')


KNOWN_METHODS = {
    'PlayingHistory': {'__init__', 'record', '__getitem__', 'contract', 'history'},
    'PlayingPhase': {'__init__', 'has_done', 'play_card', 'play_card_by_player', '_record', '_set_next_leader', 'calc_highest',
                     '_check_has_card', '_check_active_player', 'available_cards', 'current_available_cards'},
    'PlayingPhaseWithHands': {'__init__', 'play_card_by_player', 'current_available_cards_in_hand'},
    'ObservedPlayingPhase': {'__init__', 'player', 'hand', 'dummy_hand', 'set_dummy_hand', 'play_card_by_player',
                             'current_available_cards_in_hand', 'current_available_cards_in_dummy_hand'}}


def gen_play_fns(path=None):
    """Translate bridge_env/playing_phase.py of the repository (or the file `path`, for sensitivity studies; the library
    files it relies on are always those of the repository).  Returns (file name under coq/Gen, text), like the other
    translators of gen.py; `write()` stores it."""
    _SRC.pop(REL, None)
    if path is not None:
        _SRC[REL] = path
    try:
        tree = gen.normalise_ifs(parse(REL), 'expr')
        for cname, known in KNOWN_METHODS.items():     # extract-method normal form: helpers the model does not know are read through
            tree = gen.inline_private_helpers(tree, cname, known)
        tr = Translator(tree)
        defs = tr.run()
    finally:
        _SRC.pop(REL, None)
    head = f'(* GENERATED by harness/gen_play.py from {REL} -- do not edit *)\n'
    return 'PlayFns.v', head + PRELUDE + '\n'.join(defs) + '\n'


def write(path=None, out=None):
    import os
    import lib
    name, text = gen_play_fns(path)
    out = out or os.path.join(gen.GEN, name)
    return out, lib.write_if_changed(out, text)


if __name__ == '__main__':
    o, changed = write()
    print(f'{o}: ' + ('rewritten' if changed else 'unchanged'))
