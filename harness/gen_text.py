"""Translator for the pure TEXT BUILDERS of the Blue Chip Bridge protocol code: Python `ast` -> Gallina
(coq/Gen/TextFns.v).  Reads the source TEXT only (never imports or evaluates it) and fails closed: anything outside the
subset below raises Untranslatable with file and line.  Proofs/TextGen.v proves the generated functions equal to the
builders of the hand-written model Model/Wire.v, for all arguments (properties C19 and C10).

What is translated.
(a) whole static methods (`@staticmethod`, parameters and annotations exactly as in table FUNCTIONS, result `str`):
  server.py  Server.hand_to_str(hand: Set[Card])              -> g_hand_to_str (v_hand : list card) : string
             Server.convert_vul(vul: Vul)                     -> g_convert_vul (v_vul : vul) : option string
  client.py  Client.create_bid_message(bid: Bid, player_name: str) -> g_bid_message (v_bid : call) (v_player_name : string) : string
             Client.card_str(card: Card)                      -> g_card_str (v_card : card) : string
  A method whose body contains a `raise` (or calls one that does) has the result type `option string`: None = it raises.
(b) message constructions LOCATED BY SHAPE inside larger methods; only the located expression is translated, the rest of
  the method is looked at just as far as it is needed to know the types of the names the expression reads:
  server.py  Server.deal: exactly two calls `<..>.put(<arg>)` in the method, both expression statements of the one loop
               `for player in Player:` of the method body (whose body holds nothing else), receiver
               `self.sent_message_queues[player]`.  In source order: the board header and the cards line.
               -> g_board_header_run (v_board_number : nat) (v_dealer : seat) (v_vul : vul) : option string  (None = raises),
                  g_board_header ..: string (the None case, proved dead in Proofs/TextGen.v, is the empty string),
                  g_cards_line (v_cards : seat -> list card) (v_player : seat) : string.
               Names: the parameters of deal (annotations int, Player, Vul, Hands) and the loop variable; none of them
               is stored to anywhere else in the method.
             PlayerThread._connect: exactly two calls `super().send_message(<arg>)` / `self.send_message(<arg>)`.  In
               source order: the `seated` line and the `Teams` line.
               -> g_seated_line (a_player : seat) (v_team_name : string), g_teams_line (a_team_names : seat -> option string).
               Names: `team_name` and `self.player` are bound by the first statement (pinned text)
               `team_name, self.player, protocol_version = self.parse_connection_info(super().receive_message())`, the
               result annotation of parse_connection_info is `Tuple[str, Player, int]`, and neither is stored to anywhere
               else; `self.team_names` is the __init__ parameter `team_names: Dict[Player, Optional[str]]`
               (`self.team_names = team_names`, the attribute is stored nowhere else): a table seat -> Optional[str]
               (all four players are keys, as Server.run builds it); an Optional[str] in an f-string is py_fmt_opt
               ("None" for None).
  client.py  Client._connect: exactly three send_message calls; the first in source order is the connection line.
               -> g_connect_line (a_team_name : string) (a_player : seat); `self.PROTOCOL_VERSION` is the class constant
               k_client_protocol_version (one assignment of an int literal in the class body, never stored elsewhere).
               `self.team_name`, `self.player`: __init__ parameters `team_name: str`, `player: Player` stored by
               `self.<x> = <x>` and nowhere else.
             Client.playing_phase: exactly two send_message calls whose argument calls `self.card_str(..)`.  In source
               order: the own card and dummy's card.
               -> g_play_message_own (a_player : seat) (v_card : card), g_play_message_dummy (v_dummy : seat) (v_card : card).
               Names: `card` (every store to it in the method is `self.playing_system.play(..)` or
               `super().parse_card(..)`, both annotated `-> Card`; in the block of the located statement the last store
               before it is `card = self.playing_system.play(..)`); `dummy` (stored once: `dummy = declarer.partner`,
               `declarer = contract.declarer` stored once, parameter `contract: Contract`, `assert declarer is not None`).
  If a shape is not found exactly the stated number of times, the file is refused.
The parameters of a located definition are fixed: the names listed for it above, read or not (reading any other name
is refused), so that the meaning of an argument does not depend on the source; every literal, interpolation, operand
order and call comes from the source AST.

Modelling assumptions (stated, not checked).
  - A Python str is a Coq `string` (its UTF-8 bytes); an `int` is a natural number (board numbers and the protocol version
    are non-negative), `format(n, '')` / `str(n)` of an int is string_of_nat.
  - A `Set[Card]` is a `list card` read as a set (Model/Hands.v): only membership is used.  `len`, iteration order and
    truth value of a set are refused; `list(<set>)` is still a set (its order is unspecified) and may only be sorted.
    `sorted(<set>)` = py_sorted_cards (ascending card index, duplicates gone); with `reverse=True` py_sorted_cards_desc.
    The cards of a set are distinct and Card.__lt__ (pinned) is the order of int(card), which is injective on valid cards
    (Card.__post_init__, pinned): the sorted list does not depend on the iteration order of the set.
  - Types are those of the annotations; `self` is an instance of the class itself (a subclass overriding a translated
    static method or PROTOCOL_VERSION is outside the model); the checks "stored nowhere else" are syntactic
    (setattr / delattr / __dict__ anywhere in the module are refused).
  - `x is y`, `x == y` on members of a plain Enum (pinned: no __eq__/__hash__) is equality of members.

Subset.
Module: the class names used (Card, Suit, Player, Vul, Bid, Hands) are bound exactly once in the whole module, by
  `from .. import ..`, and bridge_env/__init__.py takes each from its module; the builtins sorted, list, len, str, super
  and the exception classes are bound nowhere in the module (not even as a parameter or local of another function); each
  class looked at is defined once at module level, each method once in its class; no attribute of the translated method
  names is stored to.
Statements (static methods): the docstring; `x = e`, `x: T = e` on a local (a `let`; a name keeps its type); `pass`;
  `if`/`elif`/`else` (what follows the `if` is continued in every branch that falls through); `return <str>`;
  `raise <builtin exception class>(<literals>)`; a path that ends without return, a statement after return / raise in
  the same block, and any other statement are refused.  gen.normalise_ifs(.., 'expr') is applied first, so
  `if c: x = a else: x = b` and `x = a if c else b` give the same text.
Expressions, typed (str, nat, bool, seat, vul, call, card, suit, rank, set of cards, list of cards, list of str, deal,
  names, Optional[str]): str and non-negative int literals, True / False; parameters, locals, comprehension variables;
  the context names of a located expression; f-strings without conversion or format, an interpolation by its type (str:
  itself; int: string_of_nat; Bid: call_str; Player: seat_str; Vul: vul_str; Optional[str]: py_fmt_opt) - format(x, '')
  of a plain Enum member is str(x) (pinned __str__, no __format__); `str(x)` likewise; `a + b` of two str;
  `a if c else b`; enum members `Player.N`, `Vul.NONE`, `Bid.Pass`, `Bid.NT3`, `Suit.S` (Suit.NT is not a card suit:
  refused); `<Player>.formal_name` (formal_name, pinned); `<Card>.rank`, `<Card>.suit`; `<suit>.name` (suit_str: the member
  names of the pinned enum, listed in py_names_Suit); `Card.rank_int_to_str(<rank>)` (rank_str, pinned; the rank of a
  Card is 2..14, so it does not raise); `<Hands>[<Player>]` (pinned __getitem__); `<names>[<Player>]`;
  `sorted(..)` / `list(..)` as above (`reverse=` a literal True / False, no `key=`); `len(<list>)`;
  `<str>.join(<list of str>)` (sjoin); `[e for x in <list of cards> if c ..]` (map .. (filter ..)); calls of the
  translated static methods of the same class as `self.m(..)` / `<Class>.m(..)` (a raising one is bound by a match).
Tests: bool expressions; `not`, `and`, `or`; `is` / `is not` / `==` / `!=` of two values of the same enum type
  (<type>_beq); == != of two str; == != < <= > >= of two int; a list used as a test is `it is not empty`.

Pinned (exact source text, refused otherwise; the model functions named above were written against this text): the
  enums Player, Vul, Suit, Bid (member lists, plain Enum); Player.formal_name, Player.__str__, Player.partner;
  Vul.__str__; Bid.__str__; Card (frozen dataclass rank, suit; __post_init__, __int__, __lt__, rank_int_to_str);
  Hands.__init__ / __getitem__; Contract (frozen dataclass, declarer: Optional[Player]); the result annotations of
  PlayingSystem.play and MessageInterface.parse_card (Card) and of PlayerThread.parse_connection_info; the texts listed
  under (b)."""
import ast
import collections
import os

import gen
import gen_auction
import gen_play
import gen_pbnw
from gen import Untranslatable

SERVER = 'bridge_env/network_bridge/server.py'
CLIENT = 'bridge_env/network_bridge/client.py'
SOCKIF = 'bridge_env/network_bridge/socket_interface.py'
PLAYSYS = 'bridge_env/network_bridge/playing_system.py'

EXCEPTIONS = ('Exception', 'ValueError', 'TypeError', 'KeyError', 'IndexError', 'RuntimeError', 'NotImplementedError',
              'AssertionError')
BUILTINS = ('sorted', 'list', 'len', 'str', 'super', 'True', 'False', 'None') + EXCEPTIONS
FORBIDDEN_CALLS = ('setattr', 'delattr', 'vars', 'globals', 'locals', 'exec', 'eval')
HOOKS = ('__getattr__', '__getattribute__', '__setattr__', '__delattr__', '__slots__', '__init_subclass__', '__new__',
         '__class_getitem__')
COQTY = {'str': 'string', 'nat': 'nat', 'bool': 'bool', 'seat': 'seat', 'vul': 'vul', 'call': 'call', 'card': 'card',
         'suit': 'suit', 'rank': 'rank', 'cset': 'list card', 'list:card': 'list card', 'list:str': 'list string',
         'deal': 'seat -> list card', 'names': 'seat -> option string', 'o:str': 'option string'}
ANN = {'str': 'str', 'int': 'nat', 'Player': 'seat', 'Vul': 'vul', 'Bid': 'call', 'Card': 'card', 'Set[Card]': 'cset',
       'Hands': 'deal', 'Dict[Player, Optional[str]]': 'names'}
# static methods translated as a whole: file -> class -> [(method, Definition, parameters)]
FUNCTIONS = {SERVER: ('Server', [('hand_to_str', 'g_hand_to_str', 'hand: Set[Card]'),
                                 ('convert_vul', 'g_convert_vul', 'vul: Vul')]),
             CLIENT: ('Client', [('create_bid_message', 'g_bid_message', 'bid: Bid, player_name: str'),
                                 ('card_str', 'g_card_str', 'card: Card')])}
# enum class -> type of its members here, member -> constructor
ENUMS = {c: gen_auction.ENUMS[c] for c in ('Player', 'Vul', 'Suit', 'Bid')}
ENUM_TY = {'Player': 'seat', 'Vul': 'vul', 'Bid': 'call', 'Suit': 'suit'}
CARD_SUITS = {'C': 'Cl', 'D': 'Di', 'H': 'He', 'S': 'Sp'}
STRAINS = {'C': '(Tr Cl)', 'D': '(Tr Di)', 'H': '(Tr He)', 'S': '(Tr Sp)', 'NT': 'NT'}
PACKAGE = {'Card': 'card', 'Suit': 'suit', 'Player': 'player', 'Vul': 'vul', 'Bid': 'bid', 'Hands': 'hands',
           'Contract': 'contract'}
DATACLASSES = gen_play.DATACLASSES
# library members relied on: (file, class, name) -> (decorators, parameters, body); the model was written against this text
PINS = {k: gen_pbnw.PINS[k] for k in (('bridge_env/player.py', 'Player', '__str__'),
                                      ('bridge_env/vul.py', 'Vul', '__str__'),
                                      ('bridge_env/bid.py', 'Bid', '__str__'),
                                      ('bridge_env/card.py', 'Card', '__post_init__'),
                                      ('bridge_env/card.py', 'Card', '__int__'),
                                      ('bridge_env/card.py', 'Card', '__lt__'),
                                      ('bridge_env/card.py', 'Card', 'rank_int_to_str'),
                                      ('bridge_env/contract.py', 'Contract', '__post_init__'),
                                      ('bridge_env/hands.py', 'Hands', '__init__'),
                                      ('bridge_env/hands.py', 'Hands', '__getitem__'))}
PINS[('bridge_env/player.py', 'Player', 'partner')] = gen_play.PINS[('bridge_env/player.py', 'Player', 'partner')]
PINS[('bridge_env/player.py', 'Player', 'formal_name')] = (
    ['property'], 'self',
    "if self.name == 'N':\n    return 'North'\nelif self.name == 'E':\n    return 'East'\nelif self.name == 'S':\n"
    "    return 'South'\nelif self.name == 'W':\n    return 'West'\nraise ValueError(f'Unexpected value {self.name} is used.')")
# what has to be pinned for a use: kind -> [pin keys / ('enum', cls) / ('dc', cls) / ('pkg', name)]
NEEDS = {
    'seat': [('pkg', 'Player'), ('enum', 'Player')],
    'vul': [('pkg', 'Vul'), ('enum', 'Vul')],
    'call': [('pkg', 'Bid'), ('enum', 'Bid')],
    'suit': [('pkg', 'Suit'), ('enum', 'Suit')],
    'card': [('pkg', 'Card'), ('dc', 'Card'), ('pkg', 'Suit'), ('enum', 'Suit')],
    'formal_name': [('bridge_env/player.py', 'Player', 'formal_name')],
    'partner': [('bridge_env/player.py', 'Player', 'partner')],
    'contract': [('pkg', 'Contract'), ('dc', 'Contract')],
    'str:seat': [('bridge_env/player.py', 'Player', '__str__')],
    'str:vul': [('bridge_env/vul.py', 'Vul', '__str__')],
    'str:call': [('bridge_env/bid.py', 'Bid', '__str__')],
    'rank_int_to_str': [('bridge_env/card.py', 'Card', 'rank_int_to_str')],
    'sorted': [('bridge_env/card.py', 'Card', '__lt__'), ('bridge_env/card.py', 'Card', '__int__')],
    'deal': [('pkg', 'Hands'), ('bridge_env/hands.py', 'Hands', '__init__'), ('bridge_env/hands.py', 'Hands', '__getitem__')],
}
TYPE_NEEDS = {'seat': ['seat'], 'vul': ['vul'], 'call': ['call'], 'suit': ['suit'], 'card': ['card'], 'cset': ['card'],
              'list:card': ['card'], 'deal': ['deal', 'card', 'seat'], 'names': ['seat'], 'rank': ['card']}
STR_FN = {'nat': 'string_of_nat', 'call': 'call_str', 'seat': 'seat_str', 'vul': 'vul_str', 'o:str': 'py_fmt_opt'}
BEQ = {'seat': 'seat_beq', 'vul': 'vul_beq', 'call': 'call_beq', 'suit': 'suit_beq'}
CONNECT_PIN = 'team_name, self.player, protocol_version = self.parse_connection_info(super().receive_message())'

PRELUDE = '''(* this file: harness/gen_text.py.  The text builders of the protocol code: static methods translated as a whole, and the
   message constructions located by shape inside Server.deal, PlayerThread._connect, Client._connect and
   Client.playing_phase (see the header of gen_text.py).  v_<name>: the Python parameter or local <name>; a_<name>: the
   attribute self.<name>; x'N: a value bound by a match (None = the call raises).  A Set[Card] is a list read as a set. *)
From Coq Require Import List Arith Bool String Ascii.
From BE Require Import Model.CaseLib Model.Wire.
Import ListNotations.
Local Open Scope string_scope.
Local Open Scope list_scope.
Local Open Scope nat_scope.
Local Infix "+++" := String.append (right associativity, at level 60).
(* fixed prelude - sorted(<set of cards>): ascending card index (Card.__lt__ is the order of int(card), pinned; all_cards
   is in index order), each card of the set once; with reverse=True the same list backwards *)
Definition py_sorted_cards (h : list card) : list card := filter (fun c => existsb (card_beq c) h) all_cards.
Definition py_sorted_cards_desc (h : list card) : list card := rev (py_sorted_cards h).
(* fixed prelude - an Optional[str] inside an f-string: format(None, '') is "None" *)
Definition py_fmt_opt (o : option string) : string := match o with Some s => s | None => "None"%string end.
'''

_SRC = {}            # overrides for sensitivity studies: relative path -> file to read instead of the one under the repository


def parse(rel):
    if rel in _SRC:
        try:
            return ast.parse(open(_SRC[rel]).read())
        except (OSError, SyntaxError, ValueError) as e:
            raise Untranslatable(f'{rel}: {e}')
    return gen.parse(rel)


def is_doc(s):
    return isinstance(s, ast.Expr) and isinstance(s.value, ast.Constant) and isinstance(s.value.value, str)


def self_attr(n):
    """The name a of `self.a`, else None."""
    if isinstance(n, ast.Attribute) and isinstance(n.value, ast.Name) and n.value.id == 'self':
        return n.attr
    return None


def is_super(n):
    return isinstance(n, ast.Call) and isinstance(n.func, ast.Name) and n.func.id == 'super' and not n.args and not n.keywords


def bound_names(tree):
    """Every name bound anywhere in the tree (any scope), with the number of binding occurrences."""
    c = collections.Counter()
    for n in ast.walk(tree):
        if isinstance(n, ast.Name) and not isinstance(n.ctx, ast.Load):
            c[n.id] += 1
        elif isinstance(n, (ast.FunctionDef, ast.AsyncFunctionDef, ast.ClassDef)):
            c[n.name] += 1
        elif isinstance(n, ast.arg):
            c[n.arg] += 1
        elif isinstance(n, ast.alias):
            c[(n.asname or n.name).split('.')[0]] += 1
        elif isinstance(n, ast.ExceptHandler) and n.name:
            c[n.name] += 1
        elif isinstance(n, (ast.Global, ast.Nonlocal)):
            for x in n.names:
                c[x] += 1
        else:
            for f in ('name', 'rest'):                       # match statement captures
                v = getattr(n, f, None)
                if isinstance(v, str) and type(n).__name__.startswith('Match'):
                    c[v] += 1
    return c


def stores(tree, name):
    """The nodes that store to (or delete) the local / global name."""
    return [n for n in ast.walk(tree) if (isinstance(n, ast.Name) and n.id == name and not isinstance(n.ctx, ast.Load)) or
            (isinstance(n, ast.arg) and n.arg == name)]


def attr_stores(tree, attr):
    return [n for n in ast.walk(tree) if isinstance(n, ast.Attribute) and n.attr == attr and not isinstance(n.ctx, ast.Load)]


def in_order(nodes):
    return sorted(nodes, key=lambda n: (n.lineno, n.col_offset))


class E:
    """Translated expression: Gallina `term`, its type, the pending option binds [(pattern, option term)] in evaluation
    order (a None among them = Python raises)."""
    def __init__(self, term, ty, binds=()):
        self.term, self.ty, self.binds = term, ty, list(binds)


class Fn:
    def __init__(self, gname, params, raises):
        self.gname, self.params, self.raises = gname, params, raises


class Translator:
    """One source file."""
    enum = gen_pbnw.Translator.enum                    # the pin checks of gen_pbnw, on this module's parse / tables
    same_text = gen_pbnw.Translator.same_text

    def __init__(self, rel):
        self.rel = rel
        self.tree = gen.normalise_ifs(parse(rel), 'expr')
        self.pinned, self.n = set(), 0
        self.fns = {}                                  # translated static methods of self.cls: name -> Fn
        self.sattrs, self.consts = {}, {}              # self.<attr> -> type; self.<ATTR> -> Definition (class constants)
        self.has_self = False
        self.out, self.uses_suit_names = [], False
        self.structure()

    def bad(self, node, msg):
        raise Untranslatable(f'{self.rel}:{getattr(node, "lineno", "?")}: {msg} [{ast.unparse(node)[:70]!r}]')

    def fresh(self, base='x'):
        self.n += 1
        return f"{base}'{self.n}"

    # ---------------------------------------------------------------- the module
    def structure(self):
        self.nbound = bound_names(self.tree)
        for b in BUILTINS:
            if self.nbound[b]:
                raise Untranslatable(f'{self.rel}: the builtin {b} is rebound somewhere in the module')
        self.imports = {}
        for node in self.tree.body:
            if isinstance(node, ast.ImportFrom):
                for a in node.names:
                    if a.name == '*':
                        self.bad(node, 'star import')
                    self.imports[a.asname or a.name] = (node.level, node.module, a.name)
        for n in ast.walk(self.tree):
            if isinstance(n, ast.Call) and isinstance(n.func, ast.Name) and n.func.id in FORBIDDEN_CALLS:
                self.bad(n, f'{n.func.id}(..) somewhere in the module: the attribute checks would mean nothing')
            if isinstance(n, ast.Attribute) and n.attr in ('__dict__', '__class__') and not isinstance(n.ctx, ast.Load):
                self.bad(n, f'{n.attr} is assigned')
        self.classes = {c.name: c for c in self.tree.body if isinstance(c, ast.ClassDef)}

    def global_class(self, name, node):
        """`name` means the class of the package bridge_env: bound once in the module, by `from .. import name`."""
        if self.nbound[name] != 1 or self.imports.get(name) != (2, None, name):
            self.bad(node, f'{name} is not bound exactly once in the module, by `from .. import {name}`')

    def own_class(self, name):
        c = self.classes.get(name)
        if c is None or self.nbound[name] != 1:
            raise Untranslatable(f'{self.rel}: class {name} not found at module level (or bound twice)')
        if c.decorator_list or c.keywords:
            self.bad(c, f'class {name} is decorated or has keywords')
        for m in c.body:
            if isinstance(m, (ast.FunctionDef, ast.Assign, ast.AnnAssign)):
                for t in ([m.name] if isinstance(m, ast.FunctionDef) else
                          [x.id for x in ast.walk(m) if isinstance(x, ast.Name) and not isinstance(x.ctx, ast.Load)]):
                    if t in HOOKS:
                        self.bad(m, f'class {name} defines the attribute hook {t}')
        return c

    def method(self, cls, name):
        found = [m for m in cls.body if isinstance(m, (ast.FunctionDef, ast.AsyncFunctionDef)) and m.name == name]
        other = [m for m in cls.body if not isinstance(m, ast.FunctionDef) and name in
                 [x.id for x in ast.walk(m) if isinstance(x, ast.Name) and not isinstance(x.ctx, ast.Load)]]
        if len(found) != 1 or other or not isinstance(found[0], ast.FunctionDef):
            raise Untranslatable(f'{self.rel}: {cls.name}.{name} not found (or defined twice)')
        if attr_stores(self.tree, name):
            self.bad(attr_stores(self.tree, name)[0], f'an attribute called {name} is assigned')
        fd = found[0]
        for n in ast.walk(fd):
            if isinstance(n, (ast.Global, ast.Nonlocal, ast.Lambda, ast.FunctionDef, ast.AsyncFunctionDef, ast.ClassDef,
                              ast.NamedExpr, ast.Yield, ast.YieldFrom, ast.Await)) and n is not fd and name in self.fns_wanted:
                self.bad(n, f'{type(n).__name__} is outside the subset')
        return fd

    # ---------------------------------------------------------------- pins
    def need(self, kind, node):
        for key in NEEDS[kind]:
            if key in self.pinned:
                continue
            if key[0] == 'pkg':
                self.package(key[1], node)
            elif key[0] == 'enum':
                self.enum(key[1], node)
            elif key[0] == 'dc':
                self.dataclass(key[1], node)
            else:
                self.pin(key, node)
            self.pinned.add(key)

    def use_type(self, ty, node):
        for kind in TYPE_NEEDS.get(ty, []):
            self.need(kind, node)

    def find_class(self, rel, cls, node):
        found = [c for c in parse(rel).body if isinstance(c, ast.ClassDef) and c.name == cls]
        if len(found) != 1:
            self.bad(node, f'{rel}: class {cls} not found (or defined twice)')
        return found[0]

    def find_method(self, rel, cls, name, node):
        found = [m for m in self.find_class(rel, cls, node).body if isinstance(m, ast.FunctionDef) and m.name == name]
        if len(found) != 1:
            self.bad(node, f'{rel}: {cls}.{name} not found (or defined twice)')
        return found[0]

    def pin(self, key, node):
        rel, cls, name = key
        decos, params, body = PINS[key]
        self.same_text(self.find_method(rel, cls, name, node), decos, params, body, node,
                       f'{rel}: {cls}.{name} is not the text the model was written against')

    def package(self, name, node):
        ok = [x for x in parse('bridge_env/__init__.py').body if isinstance(x, ast.ImportFrom) and
              any((a.asname or a.name) == name for a in x.names)]
        if len(ok) != 1 or ok[0].module != PACKAGE[name] or ok[0].level != 1 or \
                any(a.name == name and a.asname is not None for a in ok[0].names):
            self.bad(node, f'bridge_env/__init__.py does not take {name} from .{PACKAGE[name]}')
        self.global_class(name, node)

    def dataclass(self, cls, node):
        rel, fields = DATACLASSES[cls]
        c = self.find_class(rel, cls, node)
        got = [(s.target.id, ast.unparse(s.annotation), None if s.value is None else ast.unparse(s.value))
               for s in c.body if isinstance(s, ast.AnnAssign) and isinstance(s.target, ast.Name)]
        if got != fields or [ast.unparse(d) for d in c.decorator_list] != ['dataclass(frozen=True)'] or c.bases or c.keywords \
                or any(isinstance(s, ast.FunctionDef) and s.name in ('__init__', '__new__', '__eq__', '__hash__', '__getattr__',
                                                                     '__getattribute__', '__format__') for s in c.body):
            self.bad(node, f'{rel}: the dataclass {cls} is not the one modelled in Model/Basics.v')
        self.pin((rel, cls, '__post_init__'), node)

    def returns(self, rel, cls, name, ann, node):
        """The result annotation of a library method (a type the translation relies on)."""
        fd = self.find_method(rel, cls, name, node) if rel != self.rel else self.method(self.own_class(cls), name)
        if fd.returns is None or ast.unparse(fd.returns) != ann:
            self.bad(node, f'{rel}: {cls}.{name} is not annotated `-> {ann}`')
        return fd

    # ---------------------------------------------------------------- whole static methods
    def functions(self):
        cname, table = FUNCTIONS[self.rel]
        self.cname = cname
        self.cls = self.own_class(cname)
        self.fns_wanted = [m for m, _, _ in table]
        for name, gname, sig in table:
            fd = self.method(self.cls, name)
            if [ast.unparse(d) for d in fd.decorator_list] != ['staticmethod'] or ast.unparse(fd.args) != sig or \
                    fd.returns is None or ast.unparse(fd.returns) != 'str':
                self.bad(fd, f'{cname}.{name} is not `@staticmethod def {name}({sig}) -> str`')
            params = []
            for p in fd.args.args:
                ty = ANN[ast.unparse(p.annotation)]
                self.use_type(ty, p)
                params.append((self.local(p, p.arg), ty))
            raises = any(isinstance(n, ast.Raise) for n in ast.walk(fd)) or \
                any(isinstance(n, ast.Call) and isinstance(n.func, ast.Attribute) and n.func.attr in self.fns
                    and self.fns[n.func.attr].raises for n in ast.walk(fd))
            body = fd.body[1:] if is_doc(fd.body[0]) else fd.body
            self.n, self.has_self, self.opt = 0, False, raises

            def fin(env, ind, fd=fd):
                self.bad(fd, 'a path through the method ends without return (the result would be None, not a str)')
            term = self.block(body, dict(params), fin, '  ')
            binder = ' '.join(f'(v_{p} : {COQTY[t]})' for p, t in params)
            note = ' (None = it raises)' if raises else ''
            self.out.append(f'(* {cname}.{name}{note} *)\nDefinition {gname} {binder} : '
                            f'{"option string" if raises else "string"} :=\n{term}.')
            self.fns[name] = Fn(gname, params, raises)

    def local(self, node, name):
        if name in BUILTINS or name in self.imports or name in self.classes or name == 'self' or name in PACKAGE:
            self.bad(node, f'local name {name} rebinds a global, a builtin or self')
        if not name.isidentifier() or not name.isascii():
            self.bad(node, f'local name {name} is outside the subset')
        return name

    # ---------------------------------------------------------------- statements
    def block(self, ss, env, k, ind):
        """Gallina text for: run the statements ss, then k(env, ind)."""
        if not ss:
            return k(env, ind)
        s, rest = ss[0], ss[1:]

        def after(env2, ind2):
            return self.block(rest, env2, k, ind2)
        if isinstance(s, (ast.Return, ast.Raise)):
            if rest:
                self.bad(rest[0], 'unreachable statement')
            if isinstance(s, ast.Raise):
                x = s.exc
                if not self.opt or s.cause is not None or not (isinstance(x, ast.Call) and isinstance(x.func, ast.Name)
                                                               and x.func.id in EXCEPTIONS and x.func.id not in env):
                    self.bad(s, 'raise other than `raise <builtin exception class>(..)`')
                if any(not isinstance(a, ast.Constant) for a in x.args) or x.keywords:
                    self.bad(s, 'the arguments of the exception are not literals')
                return ind + 'None'
            if s.value is None:
                self.bad(s, 'return without a value')
            e = self.expr(s.value, env, 'str')
            return self.bound(e, ind, lambda i: i + (f'Some {e.term}' if self.opt else e.term), s)
        if isinstance(s, ast.Pass):
            return after(env, ind)
        if isinstance(s, (ast.Assign, ast.AnnAssign)):
            t = s.targets[0] if isinstance(s, ast.Assign) and len(s.targets) == 1 else getattr(s, 'target', None)
            if not isinstance(t, ast.Name) or s.value is None:
                self.bad(s, 'assignment target is not one local name')
            v = self.local(s, t.id)
            e = self.expr(s.value, env)
            if env.get(v, e.ty) != e.ty:
                self.bad(s, f'local {v} must keep one type')
            if isinstance(s, ast.AnnAssign) and {**ANN, 'List[str]': 'list:str', 'List[Card]': 'list:card',
                                                 'bool': 'bool'}.get(ast.unparse(s.annotation)) != e.ty:
                self.bad(s, 'annotation does not match the value')
            return self.bound(e, ind, lambda i: f'{i}let v_{v} := {e.term} in\n' + after({**env, v: e.ty}, i), s)
        if isinstance(s, ast.If):
            c = self.test(s.test, env)
            return self.bound(c, ind, lambda i: f'{i}if {c.term} then\n' + self.block(s.body, dict(env), after, i + '  ') +
                              f'\n{i}else\n' + self.block(s.orelse, dict(env), after, i + '  '), s)
        self.bad(s, f'statement {type(s).__name__} is outside the subset')

    def bound(self, e, ind, k, node):
        """Statement-level bind of e's pending options around the text k(indent)."""
        if not e.binds:
            return k(ind)
        if not self.opt:
            self.bad(node, 'a call that can raise, in a method translated as one that cannot')
        pat, o = e.binds[0]
        inner = self.bound(E(e.term, e.ty, e.binds[1:]), ind, k, node)
        return f'{ind}match {o} with None => None | Some {pat} =>\n{inner} end'

    # ---------------------------------------------------------------- expressions
    def test(self, n, env):
        """A Python test: a bool expression, or the truth value of a list."""
        if isinstance(n, ast.UnaryOp) and isinstance(n.op, ast.Not):
            a = self.test(n.operand, env)
            return E(f'(negb {a.term})', 'bool', a.binds)
        if isinstance(n, ast.BoolOp):
            es = [self.test(v, env) for v in n.values]
            if any(e.binds for e in es[1:]):
                self.bad(n, 'possibly-raising operand after a short-circuit operator')
            return E('(' + (' || ' if isinstance(n.op, ast.Or) else ' && ').join(e.term for e in es) + ')', 'bool', es[0].binds)
        e = self.expr(n, env)
        if e.ty == 'bool':
            return e
        if e.ty.startswith('list:'):
            return E(f'(negb ((List.length {e.term}) =? 0))', 'bool', e.binds)     # the text of `len(l) != 0`
        self.bad(n, f'truth value of a {e.ty} is outside the subset')

    def expr(self, n, env, want=None):
        e = self.expr1(n, env)
        if want is not None and e.ty != want:
            self.bad(n, f'expected a {want} expression, found {e.ty}')
        return e

    def fmt(self, e, node):
        """format(e, '') / str(e) by the type of e."""
        if e.ty == 'str':
            return e.term
        fn = STR_FN.get(e.ty)
        if fn is None:
            self.bad(node, f'the text of a {e.ty} is outside the subset')
        if 'str:' + e.ty in NEEDS:
            self.need('str:' + e.ty, node)
        return f'({fn} {e.term})'

    def expr1(self, n, env):
        if isinstance(n, ast.Constant):
            if type(n.value) is bool:
                return E('true' if n.value else 'false', 'bool')
            if type(n.value) is int and 0 <= n.value < 100000:
                return E(str(n.value), 'nat')
            if type(n.value) is str:
                try:
                    return E(gen.coq_str(n.value), 'str')
                except UnicodeEncodeError:
                    self.bad(n, 'str literal that has no UTF-8 encoding')
            self.bad(n, 'literal outside the subset')
        if isinstance(n, ast.JoinedStr):
            parts, binds = [], []
            for v in n.values:
                if isinstance(v, ast.Constant) and type(v.value) is str:
                    parts.append(self.expr1(v, env).term)
                elif isinstance(v, ast.FormattedValue) and v.conversion == -1 and v.format_spec is None:
                    e = self.expr(v.value, env)
                    parts.append(self.fmt(e, v.value))
                    binds += e.binds
                else:
                    self.bad(n, 'f-string part with a conversion or a format is outside the subset')
            return E('(' + ' +++ '.join(parts) + ')' if len(parts) > 1 else parts[0] if parts else '""%string', 'str', binds)
        if isinstance(n, ast.Name):
            if n.id in env:
                return E('v_' + n.id, env[n.id])
            self.bad(n, 'not a bound local, parameter or context name')
        if isinstance(n, ast.Attribute):
            return self.attribute(n, env)
        if isinstance(n, ast.UnaryOp) and isinstance(n.op, ast.Not) or isinstance(n, ast.BoolOp):
            return self.test(n, env)
        if isinstance(n, ast.BinOp) and isinstance(n.op, ast.Add):
            a = self.expr(n.left, env)
            b = self.expr(n.right, env, a.ty)
            if a.ty == 'str':
                return E(f'({a.term} +++ {b.term})', 'str', a.binds + b.binds)
            if a.ty == 'nat':
                return E(f'({a.term} + {b.term})', 'nat', a.binds + b.binds)
            self.bad(n, f'+ of {a.ty} is outside the subset')
        if isinstance(n, ast.Compare) and len(n.ops) == 1:
            return self.compare(n, n.ops[0], n.left, n.comparators[0], env)
        if isinstance(n, ast.IfExp):
            c, a = self.test(n.test, env), self.expr(n.body, env)
            b = self.expr(n.orelse, env, a.ty)
            if a.binds or b.binds:
                self.bad(n, 'possibly-raising branch of a conditional expression is outside the subset')
            return E(f'(if {c.term} then {a.term} else {b.term})', a.ty, c.binds)
        if isinstance(n, ast.Subscript):
            o = self.expr(n.value, env)
            if o.ty in ('deal', 'names') and not isinstance(n.slice, ast.Slice):
                k = self.expr(n.slice, env, 'seat')
                return E(f'({o.term} {k.term})', 'cset' if o.ty == 'deal' else 'o:str', o.binds + k.binds)
            self.bad(n, f'subscript of a {o.ty} is outside the subset')
        if isinstance(n, ast.ListComp):
            if len(n.generators) != 1 or n.generators[0].is_async or not isinstance(n.generators[0].target, ast.Name):
                self.bad(n, 'comprehension with several generators or a target that is not a name')
            g = n.generators[0]
            it = self.expr(g.iter, env)
            if it.ty != 'list:card':
                self.bad(n, f'comprehension over a {it.ty} is outside the subset (the order of a set is unspecified)')
            x = self.local(g.target, g.target.id)
            inner = {**env, x: 'card'}
            conds = [self.test(c, inner) for c in g.ifs]
            e = self.expr(n.elt, inner)
            if e.binds or any(c.binds for c in conds):
                self.bad(n, 'possibly-raising expression inside a comprehension is outside the subset')
            if e.ty not in ('str', 'card'):
                self.bad(n, f'a list of {e.ty} is outside the subset')
            src = it.term
            if conds:
                cond = conds[0].term if len(conds) == 1 else '(' + ' && '.join(c.term for c in conds) + ')'
                src = f'(filter (fun v_{x} => {cond}) {it.term})'
            return E(f'(map (fun v_{x} => {e.term}) {src})', 'list:' + e.ty, it.binds)
        if isinstance(n, ast.Call):
            return self.call(n, env)
        self.bad(n, f'expression {type(n).__name__} is outside the subset')

    def attribute(self, n, env):
        a = self_attr(n)
        if a is not None and 'self' not in env:
            if not self.has_self:
                self.bad(n, 'self in a static method')
            if a in self.sattrs:
                return E('a_' + a, self.sattrs[a])
            if a in self.consts:
                return E(self.consts[a], 'nat')
            self.bad(n, f'attribute {a} of self is outside the subset')
        if isinstance(n.value, ast.Name) and n.value.id not in env:
            c = n.value.id
            if c == getattr(self, 'cname', None) and n.attr in self.consts:
                return E(self.consts[n.attr], 'nat')
            if c in ENUMS:
                members = [m for m, _ in ENUMS[c][2]]
                if n.attr not in members:
                    self.bad(n, f'{c} has no member {n.attr}')
                self.need(ENUM_TY[c], n)
                if c == 'Suit':
                    if n.attr not in CARD_SUITS:
                        self.bad(n, 'Suit.NT is not the suit of a card')
                    return E(CARD_SUITS[n.attr], 'suit')
                if c == 'Bid' and n.attr not in ENUMS[c][3]:
                    return E(f'(Bid L{n.attr[-1]} {STRAINS[n.attr[:-1]]})', 'call')
                return E(ENUMS[c][3][n.attr], ENUM_TY[c])
            if c != 'self' and (self.nbound[c] or c in BUILTINS):
                self.bad(n, f'{c} is not a bound local, parameter or context name here (or an attribute of a global outside the subset)')
        o = self.expr(n.value, env)
        if o.ty == 'seat' and n.attr == 'formal_name':
            self.need('formal_name', n)
            return E(f'(formal_name {o.term})', 'str', o.binds)
        if o.ty == 'card' and n.attr in ('rank', 'suit'):
            return E(f'({"crank" if n.attr == "rank" else "csuit"} {o.term})', n.attr, o.binds)
        if o.ty == 'suit' and n.attr == 'name':
            self.uses_suit_names = True
            return E(f'(suit_str {o.term})', 'str', o.binds)
        self.bad(n, f'attribute {n.attr} of a {o.ty} is outside the subset')

    def compare(self, n, op, l, r, env):
        a = self.expr(l, env)
        b = self.expr(r, env, a.ty)
        if a.ty in BEQ:
            t = f'({BEQ[a.ty]} {a.term} {b.term})'
            fmt = {ast.Is: t, ast.Eq: t, ast.IsNot: f'(negb {t})', ast.NotEq: f'(negb {t})'}.get(type(op))
            if fmt is None:
                self.bad(n, f'comparison {type(op).__name__} of {a.ty} is outside the subset')
            return E(fmt, 'bool', a.binds + b.binds)
        if a.ty == 'str':
            fmt = {ast.Eq: '(String.eqb {0} {1})', ast.NotEq: '(negb (String.eqb {0} {1}))'}.get(type(op))
        elif a.ty == 'nat':
            fmt = {ast.Lt: '({0} <? {1})', ast.LtE: '({0} <=? {1})', ast.Gt: '({1} <? {0})', ast.GtE: '({1} <=? {0})',
                   ast.Eq: '({0} =? {1})', ast.NotEq: '(negb ({0} =? {1}))'}.get(type(op))     # a > b is written b <? a
        else:
            fmt = None
        if fmt is None:
            self.bad(n, f'comparison {type(op).__name__} of {a.ty} is outside the subset')
        return E(fmt.format(a.term, b.term), 'bool', a.binds + b.binds)

    def call(self, n, env):
        f = n.func
        if any(isinstance(a, ast.Starred) for a in n.args) or any(k.arg is None for k in n.keywords):
            self.bad(n, 'argument list outside the subset')
        if isinstance(f, ast.Name) and f.id not in env:
            if f.id == 'sorted' and len(n.args) == 1 and all(k.arg == 'reverse' for k in n.keywords) and len(n.keywords) <= 1:
                a = self.expr(n.args[0], env)
                if a.ty != 'cset':
                    self.bad(n, f'sorted of a {a.ty} is outside the subset')
                rev = False
                if n.keywords:
                    v = n.keywords[0].value
                    if not (isinstance(v, ast.Constant) and type(v.value) is bool):
                        self.bad(n, 'reverse= is not a literal True / False')
                    rev = v.value
                self.need('sorted', n)
                return E(f'({"py_sorted_cards_desc" if rev else "py_sorted_cards"} {a.term})', 'list:card', a.binds)
            if f.id == 'list' and len(n.args) == 1 and not n.keywords:
                a = self.expr(n.args[0], env)
                if a.ty != 'cset' and not a.ty.startswith('list:'):
                    self.bad(n, f'list of a {a.ty} is outside the subset')
                return a                                   # a set stays a set: the order of list(<set>) is unspecified
            if f.id == 'len' and len(n.args) == 1 and not n.keywords:
                a = self.expr(n.args[0], env)
                if not a.ty.startswith('list:'):
                    self.bad(n, f'len of a {a.ty} is outside the subset')
                return E(f'(List.length {a.term})', 'nat', a.binds)
            if f.id == 'str' and len(n.args) == 1 and not n.keywords:
                a = self.expr(n.args[0], env)
                return E(self.fmt(a, n), 'str', a.binds)
            self.bad(n, 'call outside the subset')
        if isinstance(f, ast.Attribute):
            recv = f.value
            own = (isinstance(recv, ast.Name) and recv.id not in env and
                   ((recv.id == 'self' and self.has_self) or recv.id == getattr(self, 'cname', None)))
            if own and f.attr in self.fns:
                fn = self.fns[f.attr]
                given, binds = {}, []
                if len(n.args) > len(fn.params):
                    self.bad(n, 'too many arguments')
                for name, a in [(fn.params[i][0], a) for i, a in enumerate(n.args)] + [(k.arg, k.value) for k in n.keywords]:
                    if name in given or name not in dict(fn.params):
                        self.bad(n, f'argument {name} repeated or unknown')
                    given[name] = self.expr(a, env, dict(fn.params)[name])
                    binds += given[name].binds                            # evaluation order = source order
                if len(given) != len(fn.params):
                    self.bad(n, 'missing argument')
                app = ' '.join([fn.gname] + [given[p].term for p, _ in fn.params])
                if fn.raises:
                    x = self.fresh()
                    return E(x, 'str', binds + [(x, app)])
                return E(f'({app})', 'str', binds)
            if isinstance(recv, ast.Name) and recv.id == 'Card' and recv.id not in env and f.attr == 'rank_int_to_str' and \
                    len(n.args) == 1 and not n.keywords:
                self.need('card', n)
                self.need('rank_int_to_str', n)
                a = self.expr(n.args[0], env, 'rank')
                return E(f'(rank_str {a.term})', 'str', a.binds)
            if f.attr == 'join' and len(n.args) == 1 and not n.keywords and not own:
                sep = self.expr(recv, env, 'str')
                a = self.expr(n.args[0], env, 'list:str')
                return E(f'(sjoin {sep.term} {a.term})', 'str', sep.binds + a.binds)
        self.bad(n, 'call outside the subset')

    # ---------------------------------------------------------------- located expressions
    def located(self, gname, what, node, ctx):
        """One Definition for the expression `node`; ctx: [(source name, 'v'/'a', name, type)] - the names it may read,
        all of them parameters of the Definition (read or not: the meaning of an argument does not depend on the source)."""
        self.n, self.has_self, self.opt = 0, True, True
        self.sattrs = {nm: ty for _, kind, nm, ty in ctx if kind == 'a'}
        env = {nm: ty for _, kind, nm, ty in ctx if kind == 'v'}
        for _, _, _, ty in ctx:
            self.use_type(ty, node)
        e = self.expr(node, env, 'str')
        params = [(('v_' if kind == 'v' else 'a_') + nm, ty) for _, kind, nm, ty in ctx]
        binder = ' '.join(f'({p} : {COQTY[t]})' for p, t in params)
        args = ' '.join(p for p, _ in params)
        if e.binds:
            body = self.bound(e, '  ', lambda i: f'{i}Some {e.term}', node)
            self.out.append(f'(* {what}; None = building it raises *)\n'
                            f'Definition {gname}_run {binder} : option string :=\n{body}.')
            self.out.append(f'(* the None branch is dead: Proofs/TextGen.v proves {gname}_run .. = Some _ for all arguments *)\n'
                            f'Definition {gname} {binder} : string :=\n'
                            f'  match {gname}_run {args} with Some s => s | None => ""%string end.')
        else:
            self.out.append(f'(* {what} *)\nDefinition {gname} {binder} : string :=\n  {e.term}.')
        self.sattrs, self.has_self = {}, False

    def send_calls(self, cls, fd):
        """The calls `super().send_message(..)` / `self.send_message(..)` of a method, in source order."""
        if any(isinstance(m, ast.FunctionDef) and m.name == 'send_message' for m in cls.body) or attr_stores(self.tree, 'send_message'):
            self.bad(cls, f'{cls.name} defines or assigns send_message')
        out = [n for n in ast.walk(fd) if isinstance(n, ast.Call) and isinstance(n.func, ast.Attribute)
               and n.func.attr == 'send_message' and (is_super(n.func.value) or (isinstance(n.func.value, ast.Name) and n.func.value.id == 'self'))]
        loose = [n for n in ast.walk(fd) if isinstance(n, ast.Attribute) and n.attr == 'send_message']
        if len(loose) != len(out):
            self.bad(fd, 'send_message is used other than as `super().send_message(..)` / `self.send_message(..)`')
        for c in out:
            if len(c.args) != 1 or c.keywords or isinstance(c.args[0], ast.Starred):
                self.bad(c, 'send_message takes one positional argument')
        return in_order(out)

    def init_attr(self, cls, attr, ann):
        """self.<attr> is the __init__ parameter <attr> with the annotation ann, stored by `self.<attr> = <attr>` only."""
        init = self.method(cls, '__init__')
        ps = [p for p in init.args.args + init.args.kwonlyargs if p.arg == attr]
        if len(ps) != 1 or ps[0].annotation is None or ast.unparse(ps[0].annotation) != ann or init.args.vararg or init.args.kwarg:
            self.bad(init, f'{cls.name}.__init__ has no parameter `{attr}: {ann}`')
        st = attr_stores(self.tree, attr)
        own = [s for s in init.body if isinstance(s, ast.Assign) and ast.unparse(s) == f'self.{attr} = {attr}']
        if len(st) != 1 or len(own) != 1 or own[0].targets[0] is not st[0] or len(stores(init, attr)) != 1:
            self.bad(st[0] if st else init, f'self.{attr} is not stored exactly once, by `self.{attr} = {attr}` in {cls.name}.__init__')

    # ---------------------------------------------------------------- server.py
    def server(self):
        self.functions()
        # Server.deal: the two put(..) of the loop over the players
        fd = self.method(self.cls, 'deal')
        sig = 'self, board_number: int, dealer: Player, vul: Vul, cards: Hands, event_sync: Event'
        if fd.decorator_list or ast.unparse(fd.args) != sig:
            self.bad(fd, f'Server.deal does not have the parameters ({sig})')
        puts = [n for n in ast.walk(fd) if isinstance(n, ast.Call) and isinstance(n.func, ast.Attribute) and n.func.attr == 'put']
        loops = [s for s in fd.body if isinstance(s, ast.For)]
        if len(puts) != 2 or len([n for n in ast.walk(fd) if isinstance(n, ast.Attribute) and n.attr == 'put']) != 2:
            self.bad(fd, 'Server.deal does not contain exactly two put(..) calls')
        loop = [l for l in loops if any(p in list(ast.walk(l)) for p in puts)]
        if len(loop) != 1 or ast.unparse(loop[0].target) != 'player' or ast.unparse(loop[0].iter) != 'Player' or loop[0].orelse:
            self.bad(fd, 'the two put(..) calls are not in one loop `for player in Player:` of the method body')
        body = [s for s in loop[0].body if not isinstance(s, ast.Pass)]
        if len(body) != 2 or any(not (isinstance(s, ast.Expr) and s.value is p) for s, p in zip(body, in_order(puts))):
            self.bad(loop[0], 'the body of the loop is not the two put(..) statements')
        for p in puts:
            if ast.unparse(p.func.value) != 'self.sent_message_queues[player]' or len(p.args) != 1 or p.keywords or \
                    isinstance(p.args[0], ast.Starred):
                self.bad(p, 'put(..) is not `self.sent_message_queues[player].put(<one argument>)`')
        for v in ('board_number', 'dealer', 'vul', 'cards'):
            if len(stores(fd, v)) != 1:
                self.bad(fd, f'the parameter {v} is stored to inside Server.deal')
        if len(stores(fd, 'player')) != 1:
            self.bad(fd, 'the loop variable player is stored to elsewhere in Server.deal')
        self.need('seat', loop[0])                                # `for player in Player`: the members of the enum
        ctx = [('board_number', 'v', 'board_number', 'nat'), ('dealer', 'v', 'dealer', 'seat'), ('vul', 'v', 'vul', 'vul'),
               ('cards', 'v', 'cards', 'deal'), ('player', 'v', 'player', 'seat')]
        header, cards = in_order(puts)
        self.located('g_board_header', 'Server.deal: the first put(..) of the loop, the board header', header.args[0], ctx[:3])
        self.located('g_cards_line', 'Server.deal: the second put(..) of the loop, the cards of one player', cards.args[0], ctx[3:])
        # PlayerThread._connect: the seated line and the Teams line
        pt = self.own_class('PlayerThread')
        fd = self.method(pt, '_connect')
        if fd.decorator_list or ast.unparse(fd.args) != 'self':
            self.bad(fd, 'PlayerThread._connect is decorated or has parameters')
        first = fd.body[1] if is_doc(fd.body[0]) else fd.body[0]
        if ast.dump(first) != ast.dump(ast.parse(CONNECT_PIN).body[0]):
            self.bad(first, f'the first statement of PlayerThread._connect is not `{CONNECT_PIN}`')
        pci = self.returns(self.rel, 'PlayerThread', 'parse_connection_info', 'Tuple[str, Player, int]', fd)
        if [ast.unparse(d) for d in pci.decorator_list] != ['staticmethod']:
            self.bad(pci, 'parse_connection_info is not a static method')
        if len(stores(fd, 'team_name')) != 1 or len(attr_stores(self.tree, 'player')) != 1:
            self.bad(fd, 'team_name or self.player is stored to a second time')
        self.init_attr(pt, 'team_names', 'Dict[Player, Optional[str]]')
        sends = self.send_calls(pt, fd)
        if len(sends) != 2:
            self.bad(fd, 'PlayerThread._connect does not contain exactly two send_message(..) calls')
        ctx = [('self.player', 'a', 'player', 'seat'), ('team_name', 'v', 'team_name', 'str'),
               ('self.team_names', 'a', 'team_names', 'names')]
        self.located('g_seated_line', 'PlayerThread._connect: the first send_message(..), the seated line', sends[0].args[0], ctx[:2])
        self.located('g_teams_line', 'PlayerThread._connect: the second send_message(..), the Teams line', sends[1].args[0], ctx[2:])
        return self.out

    # ---------------------------------------------------------------- client.py
    def client(self):
        self.functions()
        cls = self.cls
        consts = [s for s in cls.body if isinstance(s, (ast.Assign, ast.AnnAssign)) and
                  'PROTOCOL_VERSION' in [x.id for x in ast.walk(s) if isinstance(x, ast.Name) and not isinstance(x.ctx, ast.Load)]]
        if len(consts) != 1 or not isinstance(consts[0], ast.Assign) or ast.unparse(consts[0].targets) != 'PROTOCOL_VERSION' or \
                not (isinstance(consts[0].value, ast.Constant) and type(consts[0].value.value) is int and 0 <= consts[0].value.value < 100000) \
                or attr_stores(self.tree, 'PROTOCOL_VERSION') or any(isinstance(m, ast.FunctionDef) and m.name == 'PROTOCOL_VERSION' for m in cls.body):
            self.bad(consts[0] if consts else cls, 'Client.PROTOCOL_VERSION is not one class-level assignment of an int literal')
        self.out.append(f'(* Client.PROTOCOL_VERSION, from the source *)\n'
                        f'Definition k_client_protocol_version : nat := {consts[0].value.value}.')
        self.consts = {'PROTOCOL_VERSION': 'k_client_protocol_version'}
        self.init_attr(cls, 'player', 'Player')
        self.init_attr(cls, 'team_name', 'str')
        # Client._connect: the connection line
        fd = self.method(cls, '_connect')
        if fd.decorator_list or ast.unparse(fd.args) != 'self':
            self.bad(fd, 'Client._connect is decorated or has parameters')
        sends = self.send_calls(cls, fd)
        if len(sends) != 3:
            self.bad(fd, 'Client._connect does not contain exactly three send_message(..) calls')
        ctx = [('self.team_name', 'a', 'team_name', 'str'), ('self.player', 'a', 'player', 'seat')]
        self.located('g_connect_line', 'Client._connect: the first send_message(..), the connection line', sends[0].args[0], ctx)
        # Client.playing_phase: the two played-card messages
        fd = self.method(cls, 'playing_phase')
        if fd.decorator_list or ast.unparse(fd.args) != 'self, contract: Contract':
            self.bad(fd, 'Client.playing_phase does not have the parameters (self, contract: Contract)')
        plays = [c for c in self.send_calls(cls, fd) if any(isinstance(x, ast.Call) and self_attr(x.func) == 'card_str' for x in ast.walk(c))]
        uses = [x for x in ast.walk(fd) if isinstance(x, ast.Attribute) and x.attr == 'card_str']
        if len(plays) != 2 or len(uses) != 2:
            self.bad(fd, 'Client.playing_phase does not contain exactly two send_message(..) calls that use self.card_str(..)')
        # the types of the names: dummy, card
        self.need('contract', fd), self.need('partner', fd), self.need('seat', fd)
        want = {'declarer': 'declarer = contract.declarer', 'dummy': 'dummy = declarer.partner'}
        body = [s for s in fd.body if not is_doc(s)]
        for v, text in want.items():
            if len(stores(fd, v)) != 1 or not any(isinstance(s, ast.Assign) and ast.unparse(s) == text for s in body):
                self.bad(fd, f'`{text}` is not the only store to {v} in Client.playing_phase')
        texts = [ast.unparse(s) for s in body]
        if len(stores(fd, 'contract')) != 1 or 'assert declarer is not None' not in texts or \
                not texts.index(want['declarer']) < texts.index('assert declarer is not None') < texts.index(want['dummy']):
            self.bad(fd, 'declarer is not asserted to be a Player before dummy = declarer.partner (or contract is stored to)')
        self.returns(PLAYSYS, 'PlayingSystem', 'play', 'Card', fd)
        self.returns(SOCKIF, 'MessageInterface', 'parse_card', 'Card', fd)
        self.init_attr(cls, 'playing_system', 'PlayingSystem')
        if self.imports.get('PlayingSystem') != (1, 'playing_system', 'PlayingSystem') or self.nbound['PlayingSystem'] != 1 or \
                self.imports.get('MessageInterface') != (1, 'socket_interface', 'MessageInterface') or self.nbound['MessageInterface'] != 1 or \
                'MessageInterface' not in [ast.unparse(b) for b in cls.bases] or \
                any(isinstance(m, ast.FunctionDef) and m.name == 'parse_card' for m in cls.body):
            self.bad(cls, 'PlayingSystem / MessageInterface are not those of playing_system.py / socket_interface.py')
        for st in stores(fd, 'card'):
            par = [s for s in ast.walk(fd) if isinstance(s, ast.Assign) and st in s.targets]
            v = par[0].value if len(par) == 1 and len(par[0].targets) == 1 else None
            ok = isinstance(v, ast.Call) and isinstance(v.func, ast.Attribute) and \
                ((v.func.attr == 'play' and self_attr(v.func.value) == 'playing_system') or
                 (v.func.attr == 'parse_card' and (is_super(v.func.value) or ast.unparse(v.func.value) in ('self', 'MessageInterface'))))
            if not ok:
                self.bad(st, 'a store to card that is neither self.playing_system.play(..) nor parse_card(..)')
        for c in plays:
            blocks = [getattr(p, f) for p in ast.walk(fd) for f in ('body', 'orelse', 'finalbody') if isinstance(getattr(p, f, None), list)]
            blk = [b for b in blocks if any(isinstance(s, ast.Expr) and s.value is c for s in b)]
            if len(blk) != 1:
                self.bad(c, 'the send_message(..) call is not an expression statement')
            i = [j for j, s in enumerate(blk[0]) if isinstance(s, ast.Expr) and s.value is c][0]
            before = [s for s in blk[0][:i] if stores(s, 'card')]
            if not before or not (isinstance(before[-1], ast.Assign) and ast.unparse(before[-1]).startswith('card = self.playing_system.play(')):
                self.bad(c, 'card is not bound by `card = self.playing_system.play(..)` in the block of the message')
        ctx = [('self.player', 'a', 'player', 'seat'), ('dummy', 'v', 'dummy', 'seat'), ('card', 'v', 'card', 'card')]
        own, dum = plays
        self.located('g_play_message_own', 'Client.playing_phase: the first played-card message, the own card', own.args[0], [ctx[0], ctx[2]])
        self.located('g_play_message_dummy', "Client.playing_phase: the second played-card message, dummy's card", dum.args[0], ctx[1:])
        return self.out

    def tables(self):
        if not self.uses_suit_names:
            return ''
        _, _, members, _ = ENUMS['Suit']
        rows = '; '.join(f'({CARD_SUITS[m]}, {gen.coq_str(m)})' for m, _ in members if m in CARD_SUITS)
        return '(* <suit>.name: the member names of the pinned enum Suit, for the four suits a card can have *)\n' \
               f'Definition py_names_Suit : list (suit * string) := [{rows}].\n'


def gen_text_fns(path=None, overrides=None):
    """Translate server.py and client.py of the repository.  For sensitivity studies `path` is a file read in place of
    server.py (or of client.py, if its name contains `client`), and `overrides` maps further relative paths of the
    repository to files read in their place.  Returns (file name under coq/Gen, text); `write()` stores it."""
    _SRC.clear()
    if overrides:
        _SRC.update(overrides)
    if path is not None:
        _SRC[CLIENT if 'client' in os.path.basename(path) else SERVER] = path
    try:
        s = Translator(SERVER)
        sdefs = s.server()
        c = Translator(CLIENT)
        cdefs = c.client()
        tables = s.tables() or c.tables()
    finally:
        _SRC.clear()
    head = f'(* GENERATED by harness/gen_text.py from {SERVER} and {CLIENT} -- do not edit *)\n'
    return 'TextFns.v', head + PRELUDE + tables + f'(* ---- {SERVER} *)\n' + '\n'.join(sdefs) + \
        f'\n(* ---- {CLIENT} *)\n' + '\n'.join(cdefs) + '\n'


def write(path=None, out=None):
    import lib
    name, text = gen_text_fns(path)
    out = out or os.path.join(gen.GEN, name)
    return out, lib.write_if_changed(out, text)


if __name__ == '__main__':
    o, changed = write()
    print(f'{o}: ' + ('rewritten' if changed else 'unchanged'))
