#!/bin/sh
# Robustness sweep: every quick check on the unchanged tree under several seeds; any VIOLATION here is a false alarm (or a real defect).
cd "$(dirname "$0")/.." || exit 2
for seed in "$@"; do
  for p in C01 C02 C03 C04 C05 C06 C07 C08 C09 C10 C11 C12 C13 C14 C15 C16 C17 C18 C19 C20; do
    out=$(VERIF_SEED=$seed ./check $p --tier quick 2>&1 | tail -2)
    case "$out" in *VIOLATION*|*Traceback*) echo "seed=$seed $p ALARM: $out";; *) echo "seed=$seed $p ok";; esac
  done
done
