#!/venv/bin/python
"""./check Cnn [--tier quick|thorough] [--replay file]   (DESIGN.md 2.3)"""
import argparse
import importlib
import json
import os
import re
import subprocess
import sys
import time
import traceback

sys.path.insert(0, os.path.dirname(os.path.abspath(__file__)))
import lib  # noqa: E402
import gen  # noqa: E402

TRUSTED_BASE = [
    'Coq 8.16.1 kernel and vm_compute (no native_compute); coqchk re-check in the thorough tier',
    'harness/gen.py translators (constants, enums, regex literals, schemas, message skeletons) - fail-closed',
    'harness drivers: record what the implementation did and print it as Coq literals; comparison and Spec oracle run in Coq',
    'CPython, re, json, numpy, threading/queue primitives: modelled, not verified (DESIGN.md section 5)',
]


def load_known():
    p = os.path.join(lib.VERIF, 'known_findings.json')
    try:
        return json.load(open(p))['findings']
    except FileNotFoundError:
        return []


def match_known(prop, viol, known):
    sig = viol.get('signature', {})
    for k in known:
        if k.get('property') != prop or k.get('status') != 'open':
            continue
        m = k.get('match', {})
        if m and all(sig.get(a) == b for a, b in m.items()):
            return k
    return None


def write_replay(prop, viol):
    d = os.path.join(lib.VERIF, 'replays')
    os.makedirs(d, exist_ok=True)
    path = os.path.join(d, f'{prop}_{lib.case_hash(viol)}.json')
    with open(path, 'w') as f:
        json.dump(dict(property=prop, **viol), f, indent=1, default=str)
    return path


def assumptions_of(prop):
    """Re-compile Props/Cnn.v alone to capture Print Assumptions output."""
    rc, out, err = lib.coqc(os.path.join('Props', prop + '.v'), timeout=900)
    blocks = []
    if rc == 0:
        blocks = [b.strip() for b in re.split(r'\n(?=Closed under|Axioms:)', out) if b.strip()]
    return rc == 0, out.strip(), blocks


def main():
    ap = argparse.ArgumentParser()
    ap.add_argument('prop')
    ap.add_argument('--tier', default=os.environ.get('VERIF_TIER', 'quick'))
    ap.add_argument('--replay')
    ap.add_argument('--no-build', action='store_true')
    a = ap.parse_args()
    prop = a.prop.upper()
    tier = a.tier if a.tier in ('quick', 'thorough') else 'quick'
    seed = int(os.environ.get('VERIF_SEED', '0') or 0)
    mod = importlib.import_module('props.' + prop.lower())
    os.makedirs(lib.WORK, exist_ok=True)
    t0 = time.time()
    ctx = dict(prop=prop, tier=tier, seed=seed, notes=[])

    if a.replay:
        rp = json.load(open(a.replay))
        bad = mod.replay(ctx, rp)
        print(('VIOLATION property=%s replay=%s' % (prop, a.replay)) if bad else 'replay: property holds on this input now')
        sys.exit(1 if bad else 0)

    broken = []          # proof / tie breakages: dicts(kind, what, detail)
    violations = []      # concrete failing inputs
    res = dict(evaluations=0, distinct_nontrivial=0, rule='', samples=[])

    # 1 regenerate Gen from /repo
    try:
        with lib.Lock():
            gen_msgs = gen.regenerate_all()
            if hasattr(mod, 'pre'):
                mod.pre(ctx)
    except gen.Untranslatable as e:
        gen_msgs = []
        broken.append(dict(kind='tie', what='translator', detail=str(e)))
    except lib.ImplCrash as e:
        gen_msgs = []
        broken.append(dict(kind='tie', what='graph driver crashed', detail=str(e)[-1500:]))

    # 2 proofs
    obligations, assumptions, ok_build = [], [], False
    targets = getattr(mod, 'TARGETS', [f'Props/{prop}.vo'])
    if not a.no_build:
        ok_build, log = lib.make(targets)
        if not ok_build:
            errs = re.findall(r'File "([^"]+)", line (\d+)[^\n]*\n(?:.*\n){0,12}?Error:?[^\n]*(?:\n[^\n]+){0,6}', log)
            m = re.search(r'File "([^"]+)", line (\d+), characters[^\n]*\nError:?((?:\n?[^\n]+){1,8})', log)
            detail = (m.group(0) if m else log[-1500:])
            broken.append(dict(kind='proof', what='make ' + ' '.join(targets), detail=detail[-1500:]))
    cone = lib.dep_cone(f'Props/{prop}.v')
    for gf, why in gen.FAILED.items():
        if f'Gen/{gf}' in cone:
            broken.append(dict(kind='tie', what=f'translator for Gen/{gf} failed closed (source no longer in the translated subset)', detail=why))
    obligations = lib.count_obligations(cone)
    def built(f):
        v, vo = os.path.join(lib.COQ, f), os.path.join(lib.COQ, f[:-2] + '.vo')
        return os.path.exists(vo) and os.path.getmtime(vo) >= os.path.getmtime(v)
    failed_files = set()
    if not ok_build and not a.no_build:
        failed_files = set(re.findall(r'File "\./([^"]+)"', log)) | {f'Props/{prop}.v'}
        # files that (transitively) import a failed file were not rebuilt either
        for f in cone:
            try:
                if any(ff in lib.dep_cone(f) for ff in failed_files if ff != f):
                    failed_files.add(f)
            except Exception:
                failed_files.add(f)
    discharged = len([o for o in obligations if built(o.split(':')[0]) and o.split(':')[0] not in failed_files])
    if ok_build:
        ok_as, as_out, assumptions = assumptions_of(prop)
        for blk in assumptions:
            if blk.startswith('Axioms:'):
                ctx['notes'].append('axioms printed: ' + blk[:400])

    # thorough: independent re-check of the compiled cone with coqchk, axioms listed
    coqchk_report = None
    if tier == 'thorough' and ok_build:
        pr = subprocess.run(['timeout', '1800', 'coqchk', '-silent', '-o', '-Q', lib.COQ, 'BE', f'BE.Props.{prop}'], capture_output=True, text=True)
        coqchk_report = (pr.stdout + pr.stderr)[-1500:]
        if pr.returncode != 0:
            broken.append(dict(kind='proof', what='coqchk rejects the compiled cone', detail=coqchk_report))

    # 3+4 correspondence and oracle
    try:
        r = mod.run(ctx)
        res.update(r)
        for tm in r.get('tie_mismatches', []):
            broken.append(dict(kind='tie', what=tm.get('what', 'model/implementation differ'), detail=tm))
        violations += r.get('violations', [])
    except lib.CoqEvalError as e:
        broken.append(dict(kind='tie', what='case file does not evaluate', detail=str(e)[-2000:]))
    except lib.ImplCrash as e:
        broken.append(dict(kind='tie', what='implementation driver crashed', detail=str(e)[-2500:]))

    # 5 verdict
    if broken and not violations and hasattr(mod, 'search'):
        try:
            found = mod.search(ctx, broken)
            if found:
                violations += found
        except Exception as e:  # the search is best effort
            ctx['notes'].append('search failed: ' + repr(e)[:300])
    if broken and not violations and not a.no_build:
        # generic directed search: a proof or the correspondence broke but the Spec oracle saw nothing on this run's cases -
        # look harder (the thorough generator, then another seed) for an input on which the property itself fails
        for extra_tier, extra_seed in (('thorough', seed), ('thorough', seed + 1000003)):
            try:
                ctx2 = dict(prop=prop, tier=extra_tier, seed=extra_seed, notes=[])
                r2 = mod.run(ctx2)
                res['search_evaluations'] = res.get('search_evaluations', 0) + int(r2.get('evaluations', 0))
                if r2.get('violations'):
                    for v in r2['violations']:
                        v['how_found'] = (v.get('how_found') or '') + f' [found by the directed search: tier {extra_tier}, seed {extra_seed}, after a proof/tie broke]'
                    violations += r2['violations']
                    break
            except Exception as e:
                ctx['notes'].append('directed search failed: ' + repr(e)[:200])
                break
    known = load_known()
    exit_code = 0
    reported = 0
    seen_known = set()
    out_lines = []
    for v in violations:
        k = match_known(prop, v, known)
        if k:
            if k['id'] not in seen_known:
                seen_known.add(k['id'])
                out_lines.append(f"KNOWN-FINDING: property={prop} {k['what_fails']}")
            continue
        if reported < 3:
            path = write_replay(prop, v)
            out_lines.append(f'VIOLATION property={prop} replay={path}')
        reported += 1
        exit_code = 1
    if broken and reported == 0 and not (violations and len(seen_known) and all(match_known(prop, v, known) for v in violations)):
        path = write_replay(prop, dict(kind='unproved', how_found='no failing input found',
                                       theorem_or_tie=[dict(kind=b['kind'], what=b['what']) for b in broken],
                                       detail=broken))
        out_lines.append(f'VIOLATION property={prop} replay={path} no-failing-input-found')
        exit_code = 1
        reported += 1
    elif broken and reported == 0:
        # everything broken is explained by known findings
        pass

    wall = time.time() - t0
    cov = dict(
        obligations=len(obligations), discharged=discharged,
        checker_cmd=f'make -C coq {" ".join(targets)} (coqc 8.16.1, full .vo build); coqc Props/{prop}.v for Print Assumptions',
        trusted_base=TRUSTED_BASE + getattr(mod, 'TRUSTED', []),
        evaluations=int(res.get('evaluations', 0)),
        distinct_nontrivial=int(res.get('distinct_nontrivial', 0)),
        rule=res.get('rule', ''), samples=res.get('samples', [])[:5],
        theorems=[o for o in obligations if o.startswith('Props/')],
        assumptions_printed=assumptions,
        proof_cone=cone, generated_files=gen_msgs,
        broken=[dict(kind=b['kind'], what=b['what']) for b in broken],
        coqchk=coqchk_report,
    )
    for k, v in res.items():
        if k not in cov and k not in ('violations', 'tie_mismatches'):
            cov[k] = v
    ev = dict(property_id=prop, tier=tier, seed=seed, level='proof', coverage=cov,
              assumptions=getattr(mod, 'ASSUMPTIONS', []) + ctx['notes'],
              wall_s=round(wall, 2), violations=reported)
    os.makedirs(os.path.join(lib.VERIF, 'evidence'), exist_ok=True)
    with open(os.path.join(lib.VERIF, 'evidence', prop + '.json'), 'w') as f:
        json.dump(ev, f, indent=1, default=str)
    lib.clean_cases(prop)
    for l in out_lines:
        print(l)
    print(f'{prop} {tier}: obligations={len(obligations)} discharged={discharged} '
          f'evaluations={cov["evaluations"]} nontrivial={cov["distinct_nontrivial"]} '
          f'broken={len(broken)} violations={reported} wall={wall:.1f}s')
    sys.exit(exit_code)


if __name__ == '__main__':
    try:
        main()
    except SystemExit:
        raise
    except Exception:
        traceback.print_exc()
        sys.exit(2)
