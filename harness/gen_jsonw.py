"""Translator for the record-building code of bridge_env/data_handler/json_handler/writer.py and the record-reading
code of .../json_handler/parser.py (second part, at the end of this comment): Python `ast` -> Gallina (coq/Gen/JsonFns.v).  Reads the source TEXT only (never imports or evaluates it) and fails
closed: anything outside the subset below raises Untranslatable with file and line.

What is translated.  The VALUE that is handed to json.dumps, as a term of the type `json` of Model/Json.v:
  convert_deal                  -> g_deal_json    : deal    -> json
  JsonBoardSettingWriter.write  -> g_setting_json : setting -> json
  JsonLogWriter.write           -> g_record_json  : logrec  -> json
The framing (open / close / _write_content: the literals written around and between the records) is the business of
gen.gen_json_framing (Gen/JsonFraming.v) and is not redone here; of JsonWriter only `_write_content` is looked at: it
must be, up to the text of its string literal (the separator), `line = json.dumps(d, indent=None)`, the first-line
test that writes the separator, `self._writer.write(line)` - the dict is dumped as it was built.

Interface (the only hard-wired part; tables WRITERS / FUNCTIONS).  The parameters of a `write` are the fields of the
model's record, bound by `let v_<parameter> := <projection> in` in front of the translated body; the parameter list
(names, annotations, defaults, in order) must be exactly the one of the table:
  logrec:  board_id -> l_board_id;  north_player/east_player/south_player/west_player -> l_players r North/East/South/West;
           dealer -> l_dealer;  deal -> l_deal;  scoring -> l_scoring (the record stores the `.value` string of the
           Scoring member, see below);  bid_history -> l_bids;  contract -> l_contract;
           play_history -> l_play (None, or the tuple `play_history.history`, oldest trick first; a trick is the pair
           (leader, cards));  taken_trick_num -> l_taken;  scores -> the total map NS -> l_score_ns, EW -> l_score_ew
           (a dict that has both keys: `scores[Pair.x]` does not raise);  dda -> l_dda (a dict is its list of items in
           insertion order)
  setting: board_id -> s_board_id;  dealer -> s_dealer;  deal -> s_deal;  vul -> s_vul;  dda -> s_dda
Everything else comes from the source: the keys, their order, which expression goes under which key, every attribute
and member name, every test.

Subset.
Statements of a `write`, in this order: the docstring; the guard `if not self._open: raise Exception(<literal>)`
(pinned: it must be there, exactly so; it is a precondition kept by the framing and appears as a comment); then any
number of: `x = <expression>` (a new local: `let`), `d = {<dict display>}` (the dict under construction),
`d['k'] = <value>` (appends the entry: the key must be a literal that d cannot contain yet), `if <test>:` with no
else, whose body is only such `d['k'] = <value>` statements (the entries become `++ match .. with None => [] | Some x
=> [..] end`, or `++ if .. then [..] else []`); last `super()._write_content(d)` (also `self.`; the class must not
define `_write_content`): the result is `JObj <entries of d>`.  A function: docstring, locals, `return <value>` last.
Values handed to json (dict values, the returned value): a dict display with distinct literal string keys (`JObj
[(k, v); ..]`, in source order); `{str(a): <value> for a, b in D.items()}` over a dda table or one of its rows
(`JObj (map (fun '(a, b) => ..) D)`; the key must be `str` of the key variable, which is injective - the pinned
`__str__` of an Enum returning its name - so that no two items collide); `[<value> for x in L]` (`JArr (map ..)`);
`a if <test> else b` (`if`, or a `match` for a None test); `None` (JNull); an expression of type str (JStr), int
(JNum), Optional of these (`match .. with None => JNull | Some x => ..`), a list of these (`JArr (map JStr ..)`),
or a call of `convert_deal`.  A value of any other type (an Enum member, a Card, ..) is refused: json.dumps would raise.
Tests: `x is None` / `x is not None` for a parameter or local x of Optional type (inside the not-None branch x is the
content); `not`; an expression of type bool (`contract.is_passed_out()`).  Truthiness of anything else, `and`/`or`,
comparisons: refused.
Expressions: parameters, locals, comprehension variables; string and non-negative integer literals; `None`;
members `Player.X`, `Pair.X`, `Vul.X`, `Suit.X`; `deal[<Player>]` (a hand); `scores[<Pair>]`; `contract.vul`,
`contract.declarer` (Optional), `contract.is_passed_out()`; `trick.leader`, `trick.cards`; `play_history.history`
(only where play_history is known not to be None); `scoring.value` -> `py_scoring_value s`, `scoring.name` ->
`py_scoring_name s` (both defined in the prelude from the pinned member list of Scoring: `value` is the identity on
the stored string, `name` looks the member up by its value - so `.name` for `.value` changes the term, and the
equality with the model is no longer provable: MATCH_POINTS is not MatchPoints); `sorted(<hand>)` with one argument
-> `sorted_hand` (a hand is a set of cards, `sorted` uses Card.__lt__ = the order of int(card), pinned: ascending
card index); `str(x)` by the type of x: Player seat_str, Vul vul_str, Bid call_str, Card card_str, Contract
contract_str, Suit strain_str, Pair side_str, Optional[T] `py_str_opt <str of T>` ("None" for None);
`[<expression> for x in L]` -> `map (fun v_x => ..) L`.
Types come from the annotations of the parameters (table) and are checked at every use.

Pinned (exact source text, refused otherwise; the model functions named above were written against this text, and
harness/graphs.py's NotationGraph ties them to the running code over their whole finite domains):
  the enums Player, Pair, Vul, Suit, Bid (member lists; plain Enum) and Scoring (member list, no method, no member called
  name/value); `__str__` of Player, Pair, Suit (`return self.name`; JsonFns.v lists the names, JsonGen.v proves that
  seat_str/side_str/strain_str are these), of Vul, Bid, Card, Contract; Card (frozen dataclass, __post_init__, __int__,
  __lt__); Contract (frozen dataclass with its five fields, __post_init__, is_passed_out); Hands.__init__/__getitem__;
  TrickHistory (frozen dataclass leader, cards) and PlayingHistory.history (`return tuple(self._history)`); that the
  package exports these from their modules; the imports and class bases of writer.py; `__init__` of the two writers
  (`super().__init__(writer=writer)`); the builtins str, sorted, super are not rebound.

Second part: parser.py (class ParserTranslator), into the same file.
  hands_parser -> g_deal_of_json : json -> option deal;   convert_board_setting -> g_setting_of_json : json -> option py_setting;
  convert_board_log -> g_log_of_json : json -> option py_log;   JsonParser.parse_board_settings / parse_board_logs ->
  g_parse_board_settings / g_parse_board_logs : json -> option (list ..), of the document `json.load(fp)` returns (the
  character level of json.load is below the model).  None = the code raises.
Values.  What is read from the document is a `json` for as long as the code only passes it on (the annotations of locals
are not trusted: `board_id: str = data['board_id']` stays a json); the NamedTuples BoardSetting / BoardLog are the records
py_setting / py_log of the prelude (field lists pinned, pass-through fields of type json); Proofs/JsonGen.v gives the typed
view (shape_setting, shape_log) and compares with the model through it.  The annotations of PARAMETERS are trusted, as in
the first part: `data: dict` (so `'k' in data` is the presence of the key), `hands: Dict[str, List[str]]` (`hands['N']` is
a list of strings, else None), and `x: str` of the pinned converters (Card.str_to_card .. are the model's card_of_str ..
on a string, None on anything else: exact for all of them but Card.str_to_card, which Python also lets through on a
two-element list of one-character strings).  Modelling boundary, stated in the prelude: iteration (`for x in e`, a
comprehension) needs a list - Python would also iterate the keys of a dict and the characters of a string.
Subset.  Statements: `assert <test>` (no message: `if .. then .. else None`); `x = e` / `x: T = e` (a new local);
`acc = list()` followed later by `for x in L: acc.append(e)` (acc = map_opt (fun x => e) L: the list must still be empty
and is not read in the loop); `return e` last.  Tests: `'k' in e`, `not in`, `e is None`, `is not None`, `not`, and
`a and b` (short-circuit) in the test of a conditional expression only.  Expressions, in continuation-passing style,
each raising step a `match .. with None => None | Some x => ..`: `e['k']` (field: KeyError, or TypeError when e is no
dict); `E[e]` for the Enums Player, Suit, Pair, Vul (`py_member` / `py_lookup` in the list of member names generated from
the pinned member list - JsonGen.v proves these are the model's seat_of_str, strain_of_str, side_of_str); `a if c else b`
(a `None` branch makes the type Optional); list / set comprehensions (map_opt), `{K: V for a, b in e.items()}` (e must be a
dict: the list of its items, a is a string, b a json; the result is the list of (K, V) pairs in order - a dict whose later
bindings win, `assoc` in JsonGen.v); `tuple(L)` (the same list); the pinned converters `Card.str_to_card(e)`,
`Bid.str_to_bid(e)`, `Vul.str_to_vul(e)`, `Contract.str_to_contract(e, vul=.., declarer=..)` (defaults Vul.NONE, None);
`Hands(north_hand=.., ..)`, `TrickHistory(leader=.., cards=..)`, `BoardSetting(..)`, `BoardLog(..)` with positional or
keyword arguments against the pinned field lists and defaults; `r.field` of a NamedTuple; calls of hands_parser,
convert_board_setting, convert_board_log; `json.load(fp)` (the document).  Everything else is refused.
Pinned in addition: the imports of parser.py, `class JsonParser(Parser)` with exactly parse_all (`return json.load(fp)`),
parse_board_settings, parse_board_logs; the NamedTuples BoardSetting / BoardLog of abstract_classes.py (fields,
annotations, defaults, typing.NamedTuple); the classmethods Card.str_to_card, Card.rank_str_to_int, Bid.str_to_bid,
Vul.str_to_vul, Contract.str_to_contract (exact text); TrickHistory and its export from the package."""
import ast
import re

import gen
import gen_auction
import gen_play
from gen import Untranslatable

REL = 'bridge_env/data_handler/json_handler/writer.py'
PBNW = 'bridge_env/data_handler/pbn_handler/writer.py'

# ---------------------------------------------------------------- the interface with Model/Json.v
T_DDA = 'Optional[Dict[Player, Dict[Suit, int]]]'
# class -> (Definition, record type, record variable, [(parameter, annotation, default, type, term bound to v_<parameter>)])
WRITERS = {
    'JsonBoardSettingWriter': ('g_setting_json', 'setting', 's', [
        ('board_id', 'str', None, 'str', 's_board_id s'),
        ('dealer', 'Player', None, 'seat', 's_dealer s'),
        ('deal', 'Hands', None, 'deal', 's_deal s'),
        ('vul', 'Vul', None, 'vul', 's_vul s'),
        ('dda', T_DDA, 'None', 'o:dda', 's_dda s')]),
    'JsonLogWriter': ('g_record_json', 'logrec', 'r', [
        ('board_id', 'str', None, 'str', 'l_board_id r'),
        ('west_player', 'str', None, 'str', 'l_players r West'),
        ('north_player', 'str', None, 'str', 'l_players r North'),
        ('east_player', 'str', None, 'str', 'l_players r East'),
        ('south_player', 'str', None, 'str', 'l_players r South'),
        ('dealer', 'Player', None, 'seat', 'l_dealer r'),
        ('deal', 'Hands', None, 'deal', 'l_deal r'),
        ('scoring', 'Scoring', None, 'scoring', 'l_scoring r'),
        ('bid_history', 'List[Bid]', None, 'list:call', 'l_bids r'),
        ('contract', 'Contract', None, 'contract', 'l_contract r'),
        ('play_history', 'Optional[PlayingHistory]', None, 'o:playhist', 'l_play r'),
        ('taken_trick_num', 'Optional[int]', None, 'o:Z', 'l_taken r'),
        ('scores', 'Dict[Pair, int]', None, 'scores', 'fun sd : side => match sd with NS => l_score_ns r | EW => l_score_ew r end'),
        ('dda', T_DDA, 'None', 'o:dda', 'l_dda r')]),
}
# module-level function -> (Definition, [(parameter, annotation, type)], result annotation)
FUNCTIONS = {'convert_deal': ('g_deal_json', [('deal', 'Hands', 'deal')], 'Dict[str, List[str]]')}
ORDER = [('fn', 'convert_deal'), ('cls', 'JsonBoardSettingWriter'), ('cls', 'JsonLogWriter')]      # callees first
BASES = {'JsonWriter': ['Writer'], 'JsonBoardSettingWriter': ['JsonWriter'], 'JsonLogWriter': ['JsonWriter']}
# JsonWriter._write_content, the string literals (the separator: the framing's business) blanked
WRITE_CONTENT = "line = json.dumps(d, indent=None)\nif self._first_line:\n    self._first_line = False\nelse:\n" \
                "    self._writer.write('')\nself._writer.write(line)"
GUARD = "if not self._open:\n    raise Exception('')"              # the message literal is free
WRITER_INIT = ('self, writer: IO[str]', 'super().__init__(writer=writer)')
# imports of writer.py: name -> (level, module); level 3 / module None = the package bridge_env itself
IMPORTS = {'json': 'import', 'Writer': (2, 'abstract_classes'), 'Scoring': (2, 'pbn_handler.writer'),
           'Bid': (3, None), 'Contract': (3, None), 'Hands': (3, None), 'Pair': (3, None), 'Player': (3, None),
           'Suit': (3, None), 'Vul': (3, None), 'PlayingHistory': (3, 'playing_phase')}
PACKAGE = {'Bid': 'bid', 'Contract': 'contract', 'Hands': 'hands', 'Pair': 'pair', 'Player': 'player', 'Suit': 'suit',
           'Vul': 'vul', 'Card': 'card'}
COQTY = {'str': 'string', 'Z': 'Z', 'bool': 'bool', 'seat': 'seat', 'side': 'side', 'vul': 'vul', 'strain': 'strain',
         'call': 'call', 'card': 'card', 'contract': 'contract', 'scoring': 'string', 'deal': 'deal', 'cset': 'hand',
         'playhist': 'list (seat * list card)', 'trickhist': '(seat * list card)', 'scores': '(side -> Z)',
         'dda': 'dda_table', 'ddarow': 'list (strain * Z)', 'json': 'json'}
# type -> (model function that is its str(), what has to be pinned for it)
STR_OF = {'seat': 'seat_str', 'side': 'side_str', 'vul': 'vul_str', 'strain': 'strain_str', 'call': 'call_str',
          'card': 'card_str', 'contract': 'contract_str'}
CLASS_OF = {'seat': 'Player', 'side': 'Pair', 'vul': 'Vul', 'strain': 'Suit', 'call': 'Bid', 'card': 'Card',
            'contract': 'Contract'}
SCORING = [('MP', 'MP'), ('MATCH_POINTS', 'MatchPoints'), ('IMP', 'IMP'), ('CAVENDISH', 'Cavendish'),
           ('CHICAGO', 'Chicago'), ('RUBBER', 'Rubber'), ('BAM', 'BAM'), ('INSTANT', 'Instant')]
ENUMS = {c: gen_auction.ENUMS[c] for c in ('Player', 'Pair', 'Vul', 'Suit', 'Bid')}
RETURN_NAME = 'return self.name'
# library members relied on: (file, class, name) -> (decorators, parameters, body); the model was written against this text
PINS = dict((k, gen_play.PINS[k]) for k in (('bridge_env/card.py', 'Card', '__post_init__'),
                                            ('bridge_env/contract.py', 'Contract', '__post_init__'),
                                            ('bridge_env/contract.py', 'Contract', 'is_passed_out'),
                                            ('bridge_env/hands.py', 'Hands', '__init__'),
                                            ('bridge_env/hands.py', 'Hands', '__getitem__')))
PINS.update({
    ('bridge_env/player.py', 'Player', '__str__'): ([], 'self', RETURN_NAME),
    ('bridge_env/pair.py', 'Pair', '__str__'): ([], 'self', RETURN_NAME),
    ('bridge_env/suit.py', 'Suit', '__str__'): ([], 'self', RETURN_NAME),
    ('bridge_env/vul.py', 'Vul', '__str__'):
        ([], 'self', "if self.value == 1:\n    return 'None'\nelif self.value == 4:\n    return 'Both'\nreturn self.name"),
    ('bridge_env/bid.py', 'Bid', '__str__'):
        ([], 'self', 'if self.value >= 36:\n    return self.name\nreturn self.name[-1] + self.name[:-1]'),
    ('bridge_env/card.py', 'Card', '__str__'):
        ([], 'self', "if self.rank == 10:\n    return self.suit.name + 'T'\nelif self.rank == 11:\n    return self.suit.name + 'J'\n"
                     "elif self.rank == 12:\n    return self.suit.name + 'Q'\nelif self.rank == 13:\n    return self.suit.name + 'K'\n"
                     "elif self.rank == 14:\n    return self.suit.name + 'A'\nreturn self.suit.name + str(self.rank)"),
    ('bridge_env/card.py', 'Card', '__int__'): ([], 'self', 'return self.rank - 2 + (self.suit.value - 1) * 13'),
    ('bridge_env/card.py', 'Card', '__lt__'):
        ([], 'self, other: Card', 'if not isinstance(other, self.__class__):\n    raise NotImplementedError\n'
                                  'return int(self) < int(other)'),
    ('bridge_env/contract.py', 'Contract', '__str__'):
        ([], 'self', "if self.is_passed_out():\n    return 'Passed_out'\ncontract = str(self.final_bid)\nif self.xx:\n"
                     "    contract += 'XX'\nelif self.x:\n    contract += 'X'\nreturn contract"),
    ('bridge_env/playing_phase.py', 'PlayingHistory', 'history'): (['property'], 'self', 'return tuple(self._history)'),
})
DATACLASSES = gen_play.DATACLASSES
TRICKHISTORY = gen_play.TRICKHISTORY
BUILTINS = ('str', 'sorted', 'super')
IDENT = re.compile(r'[A-Za-z_][A-Za-z0-9_]*\Z')

PRELUDE = '''(* this file: harness/gen_jsonw.py.  One Definition per translated function: the value handed to json.dumps.
   v_<name>: the Python parameter or local <name>; x'N: the content of an Optional value bound by a match *)
From BE Require Import Model.Json.
Local Open Scope string_scope.
Local Open Scope list_scope.
(* fixed prelude - str(x) for an Optional x: str(None) is "None" *)
Definition py_str_opt {A : Type} (f : A -> string) (o : option A) : string :=
  match o with Some x => f x | None => "None" end.
'''


_SRC = {}            # overrides for sensitivity studies: relative path -> file to read instead of the one under the repository


def parse(rel):
    if rel in _SRC:
        try:
            return ast.parse(open(_SRC[rel]).read())
        except (OSError, SyntaxError, ValueError) as e:
            raise Untranslatable(f'{rel}: {e}')
    return gen.parse(rel)


def ind(text, n=2):
    return '\n'.join(' ' * n + l for l in text.split('\n'))


def is_doc(s):
    return isinstance(s, ast.Expr) and isinstance(s.value, ast.Constant) and isinstance(s.value.value, str)


def coqty(ty):
    if ty.startswith('o:'):
        return f'option ({coqty(ty[2:])})'
    if ty.startswith('list:'):
        return f'list ({coqty(ty[5:])})'
    return COQTY[ty]


class V:
    """Translated expression: Gallina term and type."""
    def __init__(self, term, ty):
        self.term, self.ty = term, ty


class JDict:
    """The dict under construction: segments of entries in insertion order, and the keys it may contain."""
    def __init__(self):
        self.segs, self.keys = [], set()       # segs: ('fix', [(key, term)]) | ('raw', term of type list (string * json))

    def add(self, key, term):
        if self.segs and self.segs[-1][0] == 'fix':
            self.segs[-1][1].append((key, term))
        else:
            self.segs.append(('fix', [(key, term)]))

    def term(self):
        parts = [entries(s[1]) if s[0] == 'fix' else s[1] for s in self.segs]
        if not parts:
            return '[]'
        if len(parts) == 1:
            return parts[0]
        return '(' + '\n ++ '.join(parts) + ')'


def entries(kvs):
    return '[' + ';\n '.join(f'({gen.coq_str(k)}, ' + t.replace('\n', '\n  ') + ')' for k, t in kvs) + ']'


class Env:
    def __init__(self, locs, know=None, dicts=None):
        self.locs = locs              # Python name -> V
        self.know = know or {}        # Optional name -> the term of its content, inside the branch where it is not None
        self.dicts = dicts or {}      # Python name -> JDict

    def fork(self):
        return Env(dict(self.locs), dict(self.know), self.dicts)


class Translator:
    def __init__(self, tree):
        self.tree = tree
        self.imports, self.classes, self.functions = {}, {}, {}
        self.pinned, self.n = set(), 0
        self.used_names = []          # enums whose str() is their member name and was used: their name lists go to the file
        self.uses_scoring = False
        self.structure()

    def bad(self, node, msg):
        raise Untranslatable(f'{REL}:{getattr(node, "lineno", "?")}: {msg} [{ast.unparse(node)[:70]!r}]')

    def fresh(self):
        self.n += 1
        return f"x'{self.n}"

    # ---------------------------------------------------------------- the module
    def structure(self):
        for i, node in enumerate(self.tree.body):
            if isinstance(node, ast.Import):
                for a in node.names:
                    self.imports[a.asname or a.name] = 'import' if a.asname is None else None
            elif isinstance(node, ast.ImportFrom):
                for a in node.names:
                    if node.module == 'typing' and node.level == 0:
                        where = 'typing'
                    else:
                        where = (node.level, node.module) if a.asname is None else None
                    if (a.asname or a.name) in self.imports:
                        self.bad(node, f'{a.asname or a.name} is imported twice')
                    self.imports[a.asname or a.name] = where
            elif isinstance(node, ast.ClassDef):
                if node.name not in BASES or node.name in self.classes:
                    self.bad(node, f'class {node.name} is outside the subset (or defined twice)')
                if [ast.unparse(b) for b in node.bases] != BASES[node.name] or node.keywords or node.decorator_list:
                    self.bad(node, f'class {node.name} does not have the bases {BASES[node.name]} (or is decorated)')
                self.classes[node.name] = node
            elif isinstance(node, ast.FunctionDef):
                if node.name not in FUNCTIONS or node.name in self.functions:
                    self.bad(node, f'function {node.name} is outside the subset (or defined twice)')
                self.functions[node.name] = node
            elif not (i == 0 and is_doc(node)):
                self.bad(node, 'module-level statement outside the subset')
        for c in BASES:
            if c not in self.classes:
                raise Untranslatable(f'{REL}: class {c} not found')
        for f in FUNCTIONS:
            if f not in self.functions:
                raise Untranslatable(f'{REL}: function {f} not found')
        for name, where in IMPORTS.items():
            if self.imports.get(name) != where:
                raise Untranslatable(f'{REL}: {name} is not imported from its module')
        for name, where in self.imports.items():
            if where != 'typing' and name not in IMPORTS:
                raise Untranslatable(f'{REL}: import of {name} is outside the subset')
        for name in BUILTINS + tuple(c for c in ENUMS) + ('Card',):
            if name in self.classes or name in self.functions or (name in self.imports and name not in IMPORTS):
                raise Untranslatable(f'{REL}: the name {name} is rebound')
        # the classes: JsonWriter is the framing's, except that _write_content must dump its argument as it is
        self.members = {}
        for c, node in self.classes.items():
            self.members[c] = {}
            for m in node.body:
                if is_doc(m):
                    continue
                if isinstance(m, ast.Assign) and len(m.targets) == 1 and isinstance(m.targets[0], ast.Name) and \
                        m.targets[0].id == 'TAG' and isinstance(m.value, ast.Constant) and isinstance(m.value.value, str):
                    continue                  # the framing's
                if not isinstance(m, ast.FunctionDef) or m.name in self.members[c]:
                    self.bad(m, 'class-level statement outside the subset (or a method defined twice)')
                self.members[c][m.name] = m
        wc = self.members['JsonWriter'].get('_write_content')
        if wc is None:
            raise Untranslatable(f'{REL}: JsonWriter._write_content not found')
        body = [s for s in wc.body if not is_doc(s)]
        if wc.decorator_list or ast.unparse(wc.args) != 'self, d: dict' or \
                gen.alpha_dump([ast.parse(self.blank_src(s)).body[0] for s in body]) != \
                gen.alpha_dump([ast.parse(self.blank_src(s)).body[0] for s in ast.parse(WRITE_CONTENT).body]):
            self.bad(wc, 'JsonWriter._write_content is not the pinned text (json.dumps(d, indent=None), a separator, the line)')
        for c in WRITERS:
            extra = set(self.members[c]) - {'__init__', 'write'}
            if extra:
                self.bad(self.classes[c], f'{c} defines {sorted(extra)}: outside the subset')
            if 'write' not in self.members[c]:
                raise Untranslatable(f'{REL}: {c}.write not found')
            if '__init__' in self.members[c]:
                self.same_text(self.members[c]['__init__'], [], WRITER_INIT[0], WRITER_INIT[1], self.members[c]['__init__'],
                               f'{c}.__init__ is not `{WRITER_INIT[1]}`')

    @staticmethod
    def blank(stmt):
        """ast.dump of the statement with every string literal replaced by the empty string."""
        t = ast.parse(ast.unparse(stmt)).body[0]
        for n in ast.walk(t):
            if isinstance(n, ast.Constant) and isinstance(n.value, str):
                n.value = ''
        return ast.dump(t)

    @staticmethod
    def blank_src(stmt):
        """The statement, as source text, with every string literal replaced by the empty string."""
        t = ast.parse(ast.unparse(stmt)).body[0]
        for n in ast.walk(t):
            if isinstance(n, ast.Constant) and isinstance(n.value, str):
                n.value = ''
        return ast.unparse(t)

    # ---------------------------------------------------------------- pins on the library
    def same_text(self, m, decos, params, body, node, msg):
        got = [s for s in m.body if not is_doc(s)]
        if [ast.unparse(d) for d in m.decorator_list] != decos or ast.unparse(m.args) != params or \
                gen.alpha_dump(got) != gen.alpha_dump(ast.parse(body).body):
            self.bad(node, msg)

    def find_class(self, rel, cls, node):
        found = [c for c in parse(rel).body if isinstance(c, ast.ClassDef) and c.name == cls]
        if len(found) != 1:
            self.bad(node, f'{rel}: class {cls} not found (or defined twice)')
        return found[0]

    def pin(self, key, node):
        if key in self.pinned:
            return
        rel, cls, name = key
        decos, params, body = PINS[key]
        found = [m for m in self.find_class(rel, cls, node).body if isinstance(m, ast.FunctionDef) and m.name == name]
        if len(found) != 1:
            self.bad(node, f'{rel}: {cls}.{name} not found (or defined twice)')
        self.same_text(found[0], decos, params, body, node, f'{rel}: {cls}.{name} is not the text the model was written against')
        self.pinned.add(key)

    def exported(self, name, node):
        """bridge_env/__init__.py takes `name` from its module."""
        if ('pkg', name) in self.pinned:
            return
        ok = [x for x in parse('bridge_env/__init__.py').body if isinstance(x, ast.ImportFrom) and
              any((a.asname or a.name) == name for a in x.names)]
        if len(ok) != 1 or ok[0].module != PACKAGE[name] or ok[0].level != 1 or \
                any(a.name == name and a.asname is not None for a in ok[0].names):
            self.bad(node, f'bridge_env/__init__.py does not take {name} from .{PACKAGE[name]}')
        self.pinned.add(('pkg', name))

    def enum(self, cls, node):
        """The enum class cls is the pinned one; returns (Coq type, member -> constructor)."""
        rel, ty, members, ctor = ENUMS[cls]
        if ('enum', cls) not in self.pinned:
            self.exported(cls, node)
            c = self.find_class(rel, cls, node)
            if [ast.unparse(b) for b in c.bases] != ['Enum'] or c.keywords or c.decorator_list or \
                    any(isinstance(m, ast.FunctionDef) and m.name in ('__eq__', '__ne__', '__hash__', '__new__', '__getattribute__',
                                                                       '__getattr__', '_missing_') for m in c.body):
                self.bad(node, f'{rel}: {cls} is not a plain Enum')
            if self.enum_members_of(c) != members:
                self.bad(node, f'{rel}: the members of {cls} are not those modelled in Model/Basics.v')
            self.pinned.add(('enum', cls))
        if cls == 'Bid':
            ctor = dict(ctor)
            for l in range(1, 8):
                for s, st in (('C', 'Tr Cl'), ('D', 'Tr Di'), ('H', 'Tr He'), ('S', 'Tr Sp'), ('NT', 'NT')):
                    ctor[f'{s}{l}'] = f'(Bid L{l} ({st}))' if st != 'NT' else f'(Bid L{l} NT)'
        return ty, ctor

    @staticmethod
    def enum_members_of(c):
        mem = []
        for st in c.body:
            if isinstance(st, ast.Assign) and len(st.targets) == 1 and isinstance(st.targets[0], ast.Name):
                v = st.value
                if isinstance(v, ast.UnaryOp) and isinstance(v.op, ast.USub) and isinstance(v.operand, ast.Constant) \
                        and type(v.operand.value) is int:
                    mem.append((st.targets[0].id, -v.operand.value))
                else:
                    mem.append((st.targets[0].id, v.value if isinstance(v, ast.Constant) and type(v.value) in (int, str) else None))
        return mem

    def scoring(self, node):
        if ('enum', 'Scoring') in self.pinned:
            return
        c = self.find_class(PBNW, 'Scoring', node)
        body = [s for s in c.body if not is_doc(s)]
        if [ast.unparse(b) for b in c.bases] != ['Enum'] or c.keywords or c.decorator_list or \
                any(not isinstance(s, ast.Assign) for s in body) or self.enum_members_of(c) != SCORING or len(body) != len(SCORING):
            self.bad(node, f'{PBNW}: Scoring is not the plain Enum with the member list the translator knows')
        for n in parse(PBNW).body:
            if isinstance(n, ast.ImportFrom) and any((a.asname or a.name) == 'Enum' for a in n.names) and \
                    not (n.module == 'enum' and n.level == 0 and all(a.asname is None for a in n.names)):
                self.bad(node, f'{PBNW}: Enum is not enum.Enum')
        self.pinned.add(('enum', 'Scoring'))
        self.uses_scoring = True

    def dataclass(self, cls, node):
        if ('dc', cls) in self.pinned:
            return
        self.exported(cls, node)
        rel, fields = DATACLASSES[cls]
        c = self.find_class(rel, cls, node)
        got = [(s.target.id, ast.unparse(s.annotation), None if s.value is None else ast.unparse(s.value))
               for s in c.body if isinstance(s, ast.AnnAssign) and isinstance(s.target, ast.Name)]
        if got != fields or [ast.unparse(d) for d in c.decorator_list] != ['dataclass(frozen=True)'] or c.bases or c.keywords \
                or any(isinstance(s, ast.FunctionDef) and s.name in ('__init__', '__new__', '__eq__', '__hash__', '__getattr__',
                                                                     '__getattribute__') for s in c.body):
            self.bad(node, f'{rel}: the dataclass {cls} is not the one modelled in Model/Basics.v')
        self.pin((rel, cls, '__post_init__'), node)
        self.pinned.add(('dc', cls))
        if cls == 'Card':
            self.enum('Suit', node)
        else:
            self.enum('Bid', node), self.enum('Vul', node), self.enum('Player', node)

    def trickhistory(self, node):
        if ('dc', 'TrickHistory') in self.pinned:
            return
        rel = 'bridge_env/playing_phase.py'
        th = self.find_class(rel, 'TrickHistory', node)
        body = [s for s in th.body if not is_doc(s)]
        got = [(s.target.id, ast.unparse(s.annotation)) for s in body
               if isinstance(s, ast.AnnAssign) and isinstance(s.target, ast.Name) and s.value is None]
        if [ast.unparse(d) for d in th.decorator_list] != ['dataclass(frozen=True)'] or th.bases or len(got) != len(body) \
                or got != TRICKHISTORY:
            self.bad(node, f'{rel}: TrickHistory is not the frozen dataclass (leader: Player, cards: Tuple[Card, ...])')
        self.enum('Player', node), self.dataclass('Card', node)
        self.pinned.add(('dc', 'TrickHistory'))

    def str_fn(self, ty, node):
        """The model function that is str() on a value of type ty, with everything it stands on pinned."""
        if ty.startswith('o:'):
            return f'(py_str_opt {self.str_fn(ty[2:], node)})'
        if ty not in STR_OF:
            self.bad(node, f'str() of a {ty} is outside the subset')
        cls = CLASS_OF[ty]
        if cls in ENUMS:
            rel = ENUMS[cls][0]
            self.enum(cls, node)
            self.pin((rel, cls, '__str__'), node)
            if PINS[(rel, cls, '__str__')][2] == RETURN_NAME and cls not in self.used_names:
                self.used_names.append(cls)
        elif cls == 'Card':
            self.dataclass('Card', node)
            self.pin(('bridge_env/card.py', 'Card', '__str__'), node)
        else:
            self.dataclass('Contract', node)
            for name in ('__str__', 'is_passed_out'):
                self.pin(('bridge_env/contract.py', 'Contract', name), node)
            self.pin(('bridge_env/bid.py', 'Bid', '__str__'), node)
        return STR_OF[ty]

    # ---------------------------------------------------------------- definitions
    def run(self):
        defs = []
        for kind, name in ORDER:
            defs.append(self.function(name) if kind == 'fn' else self.writer(name))
        return defs

    def local_name(self, name, node, env):
        if not IDENT.match(name) or name in ('self', '_') or name in BUILTINS or name in self.imports or name in self.classes \
                or name in self.functions or name in ENUMS or name in env.locs or name in env.dicts:
            self.bad(node, f'the name {name} cannot be bound here (reserved, or bound already)')

    def params(self, fd, table, method):
        a = fd.args
        if fd.decorator_list or a.posonlyargs or a.kwonlyargs or a.vararg or a.kwarg or a.kw_defaults:
            self.bad(fd, 'decorators or special parameters')
        ps = list(a.args)
        if method:
            if not ps or ps[0].arg != 'self' or ps[0].annotation is not None:
                self.bad(fd, 'the first parameter is not self')
            ps = ps[1:]
        defaults = [None] * (len(ps) - len(a.defaults)) + [ast.unparse(d) for d in a.defaults]
        got = [(p.arg, ast.unparse(p.annotation) if p.annotation is not None else None, d) for p, d in zip(ps, defaults)]
        if got != [(t[0], t[1], t[2]) for t in table]:
            self.bad(fd, 'the parameter list (names, annotations, defaults) is not the one of the interface table')

    def function(self, name):
        gname, ptab, rann = FUNCTIONS[name]
        fd = self.functions[name]
        self.params(fd, [(p, ann, None) for p, ann, _ in ptab], False)
        if fd.returns is None or ast.unparse(fd.returns) != rann:
            self.bad(fd, f'the result annotation is not {rann}')
        self.hands(fd)
        env = Env({p: V('v_' + p, ty) for p, _, ty in ptab})
        for p in env.locs:
            if not IDENT.match(p):
                self.bad(fd, 'parameter name')
        self.n = 0
        body = [s for i, s in enumerate(fd.body) if not (i == 0 and is_doc(s))]
        term = self.seq(body, env, fd, method=None)
        binders = ' '.join(f'(v_{p} : {coqty(ty)})' for p, _, ty in ptab)
        return f'(* {name} *)\nDefinition {gname} {binders} : json :=\n{ind(term)}.'

    def writer(self, cls):
        gname, rty, rvar, ptab = WRITERS[cls]
        fd = self.members[cls]['write']
        self.params(fd, ptab, True)
        if fd.returns is None or ast.unparse(fd.returns) != 'None':
            self.bad(fd, 'the result annotation is not None')
        for _, ann, _, _, _ in ptab:
            self.annotation(ann, fd)
        body = [s for i, s in enumerate(fd.body) if not (i == 0 and is_doc(s))]
        guard = ast.parse(GUARD).body[0]
        ok = bool(body) and isinstance(body[0], ast.If)
        if ok:
            g = body[0]
            r = g.body[0] if len(g.body) == 1 else None
            ok = ast.dump(g.test) == ast.dump(guard.test) and not g.orelse and isinstance(r, ast.Raise) and r.cause is None and \
                isinstance(r.exc, ast.Call) and ast.unparse(r.exc.func) == 'Exception' and not r.exc.keywords and \
                len(r.exc.args) == 1 and isinstance(r.exc.args[0], ast.Constant) and isinstance(r.exc.args[0].value, str)
        if not ok:
            self.bad(body[0] if body else fd, 'the first statement is not the guard `if not self._open: raise Exception(<literal>)`')
        env = Env({p: V('v_' + p, ty) for p, _, _, ty, _ in ptab})
        self.n = 0
        term = self.seq(body[1:], env, fd, method=cls)
        lets = ''.join(f'let v_{p} := {t} in\n' for p, _, _, _, t in ptab)
        return f'(* {cls}.write; precondition (pinned, kept by the framing): self._open, else it raises Exception *)\n' \
               f'Definition {gname} ({rvar} : {rty}) : json :=\n{ind(lets + term)}.'

    def annotation(self, ann, node):
        for cname in ('Player', 'Pair', 'Vul', 'Suit', 'Bid'):
            if re.search(rf'\b{cname}\b', ann):
                self.enum(cname, node)
        if 'Contract' in ann:
            self.dataclass('Contract', node)
        if 'Hands' in ann:
            self.hands(node)
        if 'Scoring' in ann:
            self.scoring(node)
        if 'PlayingHistory' in ann:
            self.pin(('bridge_env/playing_phase.py', 'PlayingHistory', 'history'), node)
            self.trickhistory(node)

    def hands(self, node):
        self.exported('Hands', node), self.enum('Player', node), self.dataclass('Card', node)
        self.pin(('bridge_env/hands.py', 'Hands', '__init__'), node), self.pin(('bridge_env/hands.py', 'Hands', '__getitem__'), node)

    # ---------------------------------------------------------------- statements
    def seq(self, ss, env, at, method):
        """Gallina for the statement list.  method: the class of the `write` being translated, None in a function."""
        if not ss:
            self.bad(at, 'control reaches the end without ' + ('`super()._write_content(d)`' if method else '`return`'))
        s, rest = ss[0], ss[1:]
        if isinstance(s, ast.Return):
            if method or rest or s.value is None:
                self.bad(s, '`return` here is outside the subset')
            return self.tojson(s.value, env)
        if isinstance(s, ast.Expr) and isinstance(s.value, ast.Call) and not is_doc(s):
            n = s.value
            f = n.func
            if method and not rest and isinstance(f, ast.Attribute) and f.attr == '_write_content' and \
                    (gen_play.is_super(f.value) or (isinstance(f.value, ast.Name) and f.value.id == 'self')) and \
                    len(n.args) == 1 and not n.keywords and isinstance(n.args[0], ast.Name) and n.args[0].id in env.dicts:
                if '_write_content' in self.members[method]:
                    self.bad(s, f'{method} defines _write_content')
                return f'JObj {env.dicts[n.args[0].id].term()}'
            self.bad(s, 'a call as a statement other than the final `super()._write_content(<the dict>)`')
        if isinstance(s, ast.Assign):
            if len(s.targets) != 1:
                self.bad(s, 'assignment outside the subset')
            t = s.targets[0]
            if isinstance(t, ast.Name):
                self.local_name(t.id, s, env)
                if isinstance(s.value, ast.Dict) and method:
                    d = JDict()
                    for k, term in self.display(s.value, env):
                        d.add(k, term)
                        d.keys.add(k)
                    env = env.fork()
                    env.dicts = dict(env.dicts)
                    env.dicts[t.id] = d
                    return self.seq(rest, env, s, method)
                v = self.expr(s.value, env)
                if v.ty == 'none':
                    self.bad(s, 'a local that is None')
                env = env.fork()
                env.locs[t.id] = V('v_' + t.id, v.ty)
                return f'let v_{t.id} := {v.term} in\n' + self.seq(rest, env, s, method)
            if isinstance(t, ast.Subscript):
                self.store(s, env, lambda d, k, term: d.add(k, term))
                return self.seq(rest, env, s, method)
            self.bad(s, 'assignment target outside the subset')
        if isinstance(s, ast.If):
            if s.orelse or not s.body:
                self.bad(s, 'an `if` statement with an else')
            c = self.cond(s.test, env)
            inner = env.fork()
            if c[0] == 'opt':
                _, name, v, flip = c
                if not flip:
                    self.bad(s, 'an `if x is None:` statement')
                x = self.fresh()
                inner.know[name] = x
            got, target = [], []
            for b in s.body:
                if not (isinstance(b, ast.Assign) and len(b.targets) == 1 and isinstance(b.targets[0], ast.Subscript)):
                    self.bad(b, 'the body of an `if` statement may only store entries `d[<key>] = <value>`')
                target.append(self.store(b, inner, lambda d, k, term: got.append((k, term))))
            if len(set(map(id, target))) != 1:
                self.bad(s, 'the body of an `if` statement stores into several dicts')
            if c[0] == 'opt':
                seg = f'match {v.term} with\n    | None => []\n    | Some {x} =>\n{ind(entries(got), 8)}\n    end'
            else:
                seg = f'(if {c[1]} then\n{ind(entries(got), 8)}\n    else [])'
            target[0].segs.append(('raw', seg))
            return self.seq(rest, env, s, method)
        self.bad(s, f'statement {type(s).__name__} is outside the subset')

    def store(self, s, env, put):
        """`d['k'] = <value>` on a dict under construction, with a key it cannot contain yet: a new last entry."""
        t = s.targets[0]
        if not (isinstance(t.value, ast.Name) and t.value.id in env.dicts and isinstance(t.slice, ast.Constant)
                and isinstance(t.slice.value, str)):
            self.bad(s, 'a store other than `d[<literal key>] = <value>` into the dict under construction')
        d = env.dicts[t.value.id]
        if t.slice.value in d.keys:
            self.bad(s, f'the key {t.slice.value!r} may be in the dict already (a store would replace it in place)')
        term = self.tojson(s.value, env)
        d.keys.add(t.slice.value)
        put(d, t.slice.value, term)
        return d

    # ---------------------------------------------------------------- tests
    def cond(self, n, env):
        """('bool', term) or ('opt', name, V, flip): `name is None` (flip: `is not None`)."""
        if isinstance(n, ast.UnaryOp) and isinstance(n.op, ast.Not):
            c = self.cond(n.operand, env)
            if c[0] == 'bool':
                return 'bool', f'(negb {c[1]})'
            return 'opt', c[1], c[2], not c[3]
        if isinstance(n, ast.Compare):
            if len(n.ops) == 1 and isinstance(n.ops[0], (ast.Is, ast.IsNot)) and isinstance(n.comparators[0], ast.Constant) \
                    and n.comparators[0].value is None and isinstance(n.left, ast.Name):
                name = n.left.id
                if name in env.know:
                    self.bad(n, 'a test against None of a value known not to be None')
                v = self.expr(n.left, env)
                if not v.ty.startswith('o:'):
                    self.bad(n, f'a test against None of a {v.ty}')
                return 'opt', name, v, isinstance(n.ops[0], ast.IsNot)
            self.bad(n, 'comparison outside `<name> is None` / `<name> is not None`')
        v = self.expr(n, env)
        if v.ty != 'bool':
            self.bad(n, f'a test of type {v.ty} is outside the subset (truthiness)')
        return 'bool', v.term

    def branch(self, c, env, then, orelse):
        """Gallina for `then(env) if c else orelse(env)`."""
        if c[0] == 'bool':
            return f'(if {c[1]} then {then(env)} else {orelse(env)})'
        _, name, v, flip = c
        some_env = env.fork()
        x = self.fresh()
        some_env.know[name] = x
        ne, so = (orelse, then) if flip else (then, orelse)
        return f'match {v.term} with\n  | None => {ne(env)}\n  | Some {x} =>\n{ind(so(some_env), 6)}\n  end'

    # ---------------------------------------------------------------- values handed to json.dumps
    def display(self, n, env):
        out = []
        for kn, vn in zip(n.keys, n.values):
            if not (isinstance(kn, ast.Constant) and isinstance(kn.value, str)):
                self.bad(n, 'a dict display whose keys are not all string literals')
            if kn.value in [k for k, _ in out]:
                self.bad(n, f'the key {kn.value!r} occurs twice in a dict display')
            out.append((kn.value, self.tojson(vn, env)))
        return out

    def comp(self, n, env):
        """The single generator of a comprehension: (iterated V, environment of the element)."""
        if len(n.generators) != 1:
            self.bad(n, 'a comprehension with several generators')
        g = n.generators[0]
        if g.is_async or g.ifs:
            self.bad(n, 'a comprehension with a filter')
        return g

    def tojson(self, n, env):
        if isinstance(n, ast.Dict):
            return f'JObj {entries(self.display(n, env))}'
        if isinstance(n, ast.Constant) and n.value is None:
            return 'JNull'
        if isinstance(n, ast.IfExp):
            return self.branch(self.cond(n.test, env), env, lambda e: self.tojson(n.body, e), lambda e: self.tojson(n.orelse, e))
        if isinstance(n, ast.DictComp):
            g = self.comp(n, env)
            it = g.iter
            if not (isinstance(it, ast.Call) and isinstance(it.func, ast.Attribute) and it.func.attr == 'items' and not it.args
                    and not it.keywords and isinstance(g.target, ast.Tuple) and len(g.target.elts) == 2
                    and all(isinstance(e, ast.Name) for e in g.target.elts)):
                self.bad(n, 'a dict comprehension other than `{.. for a, b in D.items()}`')
            d = self.expr(it.func.value, env)
            if d.ty == 'dda':
                kty, vty = 'seat', 'ddarow'
            elif d.ty == 'ddarow':
                kty, vty = 'strain', 'Z'
            else:
                self.bad(n, f'.items() of a {d.ty}')
            a, b = g.target.elts[0].id, g.target.elts[1].id
            inner = env.fork()
            self.local_name(a, n, inner)
            inner.locs[a] = V('v_' + a, kty)
            self.local_name(b, n, inner)
            inner.locs[b] = V('v_' + b, vty)
            if not (isinstance(n.key, ast.Call) and isinstance(n.key.func, ast.Name) and n.key.func.id == 'str' and
                    len(n.key.args) == 1 and not n.key.keywords and isinstance(n.key.args[0], ast.Name) and n.key.args[0].id == a):
                self.bad(n, 'the key of a dict comprehension must be `str(<the key variable>)` (distinct keys stay distinct)')
            if STR_OF.get(kty) is None or PINS[(ENUMS[CLASS_OF[kty]][0], CLASS_OF[kty], '__str__')][2] != RETURN_NAME:
                self.bad(n, 'str() is not known to be injective on this key type')
            k = self.expr(n.key, inner)
            return f"JObj (map (fun '(v_{a}, v_{b}) => ({k.term}, {self.tojson(n.value, inner)})) {d.term})"
        if isinstance(n, ast.ListComp) and isinstance(n.elt, (ast.Dict, ast.DictComp, ast.IfExp, ast.ListComp)):
            it, x, inner = self.generator(n, env)
            return f'JArr (map (fun v_{x} =>\n{ind(self.tojson(n.elt, inner), 6)}) {it.term})'
        if isinstance(n, ast.Name) and n.id in env.dicts:
            self.bad(n, 'the dict under construction is used as a value')
        return self.json_of(self.expr(n, env), n)

    def json_of(self, v, node):
        if v.ty == 'json':
            return v.term
        if v.ty == 'none':
            return 'JNull'
        if v.ty == 'str':
            return f'JStr {v.term}'
        if v.ty == 'Z':
            return f'JNum {v.term}'
        if v.ty == 'list:str':
            return f'JArr (map JStr {v.term})'
        if v.ty == 'list:Z':
            return f'JArr (map JNum {v.term})'
        if v.ty in ('o:str', 'o:Z'):
            x = self.fresh()
            return f'match {v.term} with None => JNull | Some {x} => {self.json_of(V(x, v.ty[2:]), node)} end'
        self.bad(node, f'a {v.ty} handed to json.dumps is outside the subset (not serialisable, or not modelled)')

    def generator(self, n, env):
        g = self.comp(n, env)
        if not isinstance(g.target, ast.Name):
            self.bad(n, 'a comprehension whose target is not a name')
        it = self.expr(g.iter, env)
        if not it.ty.startswith('list:'):
            self.bad(n, f'a comprehension over a {it.ty}')
        inner = env.fork()
        self.local_name(g.target.id, n, inner)
        inner.locs[g.target.id] = V('v_' + g.target.id, it.ty[5:])
        return it, g.target.id, inner

    # ---------------------------------------------------------------- expressions
    def expr(self, n, env):
        if isinstance(n, ast.Constant):
            if n.value is None:
                return V('None', 'none')
            if type(n.value) is str:
                return V(gen.coq_str(n.value), 'str')
            if type(n.value) is int and n.value >= 0:
                return V(f'{n.value}%Z', 'Z')
            self.bad(n, 'literal outside the subset')
        if isinstance(n, ast.Name):
            if n.id in env.locs:
                v = env.locs[n.id]
                if n.id in env.know:
                    return V(env.know[n.id], v.ty[2:])
                return v
            self.bad(n, 'not a parameter or local')
        if isinstance(n, ast.Attribute):
            if isinstance(n.value, ast.Name) and n.value.id in ENUMS and n.value.id not in env.locs:
                if self.imports.get(n.value.id) != IMPORTS.get(n.value.id):
                    self.bad(n, f'{n.value.id} is not imported from the package')
                ty, ctor = self.enum(n.value.id, n)
                if n.attr not in ctor:
                    self.bad(n, f'{n.value.id}.{n.attr} is not a member')
                return V(ctor[n.attr], ty)
            o = self.expr(n.value, env)
            if o.ty == 'contract' and n.attr in ('vul', 'declarer'):
                self.dataclass('Contract', n)
                return V(f'(cvul {o.term})', 'vul') if n.attr == 'vul' else V(f'(cdeclarer {o.term})', 'o:seat')
            if o.ty == 'scoring' and n.attr in ('value', 'name'):
                self.scoring(n)
                return V(f'(py_scoring_{n.attr} {o.term})', 'str')
            if o.ty == 'trickhist' and n.attr in ('leader', 'cards'):
                self.trickhistory(n)
                return V(f'(fst {o.term})', 'seat') if n.attr == 'leader' else V(f'(snd {o.term})', 'list:card')
            if o.ty == 'playhist' and n.attr == 'history':
                self.pin(('bridge_env/playing_phase.py', 'PlayingHistory', 'history'), n)
                self.trickhistory(n)
                return V(o.term, 'list:trickhist')
            if o.ty.startswith('o:'):
                self.bad(n, 'an attribute of an Optional value where no `is not None` test covers it')
            self.bad(n, f'attribute {n.attr} of a {o.ty} is outside the subset')
        if isinstance(n, ast.Subscript):
            o = self.expr(n.value, env)
            if o.ty == 'deal':
                self.hands(n)
                k = self.expr(n.slice, env)
                if k.ty != 'seat':
                    self.bad(n, f'a deal indexed by a {k.ty}')
                return V(f'({o.term} {k.term})', 'cset')
            if o.ty == 'scores':
                self.enum('Pair', n)
                k = self.expr(n.slice, env)
                if k.ty != 'side':
                    self.bad(n, f'scores indexed by a {k.ty}')
                return V(f'({o.term} {k.term})', 'Z')
            self.bad(n, f'subscript of a {o.ty} is outside the subset')
        if isinstance(n, ast.ListComp):
            it, x, inner = self.generator(n, env)
            e = self.expr(n.elt, inner)
            if e.ty == 'none' or e.ty == 'json':
                self.bad(n, 'a list comprehension of this element type')
            return V(f'(map (fun v_{x} => {e.term}) {it.term})', 'list:' + e.ty)
        if isinstance(n, ast.Call):
            return self.call(n, env)
        self.bad(n, f'expression {type(n).__name__} is outside the subset')

    def call(self, n, env):
        f = n.func
        plain = not n.keywords and not any(isinstance(a, ast.Starred) for a in n.args)
        if isinstance(f, ast.Name) and f.id not in env.locs and f.id not in env.dicts:
            if f.id == 'str' and plain and len(n.args) == 1:
                a = self.expr(n.args[0], env)
                return V(f'({self.str_fn(a.ty, n)} {a.term})', 'str')
            if f.id == 'sorted' and plain and len(n.args) == 1:
                a = self.expr(n.args[0], env)
                if a.ty != 'cset':
                    self.bad(n, f'sorted of a {a.ty}')
                self.dataclass('Card', n)
                self.pin(('bridge_env/card.py', 'Card', '__lt__'), n), self.pin(('bridge_env/card.py', 'Card', '__int__'), n)
                return V(f'(sorted_hand {a.term})', 'list:card')
            if f.id in FUNCTIONS and plain and len(n.args) == 1:
                gname, ptab, _ = FUNCTIONS[f.id]
                a = self.expr(n.args[0], env)
                if a.ty != ptab[0][2]:
                    self.bad(n, f'{f.id} of a {a.ty}')
                return V(f'({gname} {a.term})', 'json')
            self.bad(n, 'call outside the subset')
        if isinstance(f, ast.Attribute) and f.attr == 'is_passed_out' and plain and not n.args:
            o = self.expr(f.value, env)
            if o.ty == 'contract':
                self.dataclass('Contract', n)
                self.pin(('bridge_env/contract.py', 'Contract', 'is_passed_out'), n)
                return V(f'(is_passed_out {o.term})', 'bool')
        self.bad(n, 'call outside the subset')

    # ---------------------------------------------------------------- what the prelude needs from the pinned enums
    def tables(self):
        out = ''
        for cls in self.used_names:
            _, ty, members, ctor = ENUMS[cls]
            rows = '; '.join(f'({ctor[m]}, {gen.coq_str(m)})' for m, _ in members)
            out += f'(* {cls}.__str__ is `{RETURN_NAME}` (pinned): the members of {cls} and their names *)\n' \
                   f'Definition py_names_{cls} : list ({ty} * string) := [{rows}].\n'
        if self.uses_scoring:
            rows = '; '.join(f'({gen.coq_str(a)}, {gen.coq_str(b)})' for a, b in SCORING)
            out += '(* the members of the Enum Scoring (pinned): name, value.  The record stores the value of the member. *)\n' \
                   f'Definition py_scoring_members : list (string * string) := [{rows}].\n' \
                   '(* scoring.value: the stored string itself *)\n' \
                   'Definition py_scoring_value (stored : string) : string := stored.\n' \
                   '(* scoring.name: the name of the member that has this value (a string that is the value of no member is not a\n' \
                   '   Scoring object: it is left as it is) *)\n' \
                   'Definition py_scoring_name (stored : string) : string :=\n' \
                   '  match find (fun nv => String.eqb (snd nv) stored) py_scoring_members with Some nv => fst nv | None => stored end.\n'
        return out


# ====================================================================================================== parser.py
REL2 = 'bridge_env/data_handler/json_handler/parser.py'
ABS = 'bridge_env/data_handler/abstract_classes.py'
IMPORTS2 = {'json': 'import', 'BoardLog': (2, 'abstract_classes'), 'BoardSetting': (2, 'abstract_classes'),
            'Parser': (2, 'abstract_classes'), 'Bid': (3, None), 'Card': (3, None), 'Contract': (3, None), 'Hands': (3, None),
            'Pair': (3, None), 'Player': (3, None), 'Suit': (3, None), 'TrickHistory': (3, None), 'Vul': (3, None)}
T_DDA2 = ('opt', ('dict', 'seat', ('dict', 'strain', 'json')))
# NamedTuple -> (Coq record, constructor, [(field, annotation, default, type, projection)]); the field list is pinned
RECORDS = {
    'BoardSetting': ('py_setting', 'mkPySetting', [
        ('hands', 'Hands', None, 'deal', 'ps_hands'), ('dealer', 'Player', None, 'seat', 'ps_dealer'),
        ('vul', 'Vul', None, 'vul', 'ps_vul'), ('board_id', 'str', None, 'json', 'ps_board_id'),
        ('dda', T_DDA, 'None', T_DDA2, 'ps_dda')]),
    'BoardLog': ('py_log', 'mkPyLog', [
        ('board_id', 'str', None, 'json', 'pl_board_id'), ('hands', 'Hands', None, 'deal', 'pl_hands'),
        ('dealer', 'Player', None, 'seat', 'pl_dealer'), ('vul', 'Vul', None, 'vul', 'pl_vul'),
        ('declarer', 'Optional[Player]', None, ('opt', 'seat'), 'pl_declarer'),
        ('contract', 'Contract', None, 'contract', 'pl_contract'), ('taken_trick', 'int', None, 'json', 'pl_taken_trick'),
        ('players', 'Optional[Dict[Player, str]]', 'None', ('opt', ('dict', 'seat', 'json')), 'pl_players'),
        ('bid_history', 'Optional[List[Bid]]', 'None', ('opt', ('list', 'call')), 'pl_bid_history'),
        ('play_history', 'Optional[List[TrickHistory]]', 'None', ('opt', ('list', 'trickhist')), 'pl_play_history'),
        ('dda', T_DDA, 'None', T_DDA2, 'pl_dda'),
        ('score_type', 'Optional[str]', 'None', ('opt', 'json'), 'pl_score_type'),
        ('scores', 'Optional[Dict[Pair, int]]', 'None', ('opt', ('dict', 'side', 'json')), 'pl_scores')]),
}
REC_TY = {v[0]: k for k, v in RECORDS.items()}
# module-level function -> (Definition, parameter, its annotation, its type, result annotation, result type)
FUNCTIONS2 = {'hands_parser': ('g_deal_of_json', 'hands', 'Dict[str, List[str]]', 'json_hands', 'Hands', 'deal'),
              'convert_board_setting': ('g_setting_of_json', 'data', 'dict', 'json', 'BoardSetting', 'py_setting'),
              'convert_board_log': ('g_log_of_json', 'data', 'dict', 'json', 'BoardLog', 'py_log')}
# method of JsonParser -> (Definition, result annotation, result type); the parameter is `fp: IO[str]`, read by json.load only
METHODS2 = {'parse_board_settings': ('g_parse_board_settings', 'List[BoardSetting]', ('list', 'py_setting')),
            'parse_board_logs': ('g_parse_board_logs', 'List[BoardLog]', ('list', 'py_log'))}
ORDER2 = [('fn', 'hands_parser'), ('fn', 'convert_board_setting'), ('fn', 'convert_board_log'),
          ('m', 'parse_board_settings'), ('m', 'parse_board_logs')]
PARSE_ALL = ('self, fp: IO[str]', 'return json.load(fp)')
# the converters of the library: (class, name) -> (file, model function, parameters, body)
CONVERTERS = {
    ('Card', 'str_to_card'): ('bridge_env/card.py', 'card_of_str', 'card', 'cls, x: str',
                              "if len(x) != 2:\n    raise ValueError('Incorrect card string format.')\nsuit = Suit[x[0]]\n"
                              "rank = Card.rank_str_to_int(x[1])\nreturn Card(rank, suit)"),
    ('Card', 'rank_str_to_int'): ('bridge_env/card.py', None, None, 'cls, rank: str',
                                  "if rank == 'T':\n    return 10\nelif rank == 'J':\n    return 11\nelif rank == 'Q':\n    return 12\n"
                                  "elif rank == 'K':\n    return 13\nelif rank == 'A':\n    return 14\nelse:\n    return int(rank)"),
    ('Bid', 'str_to_bid'): ('bridge_env/bid.py', 'call_of_str', 'call', 'cls, bid_str: str',
                            "if bid_str in ['Pass', 'X', 'XX']:\n    return Bid[bid_str]\nreturn Bid[bid_str[1:] + bid_str[0]]"),
    ('Vul', 'str_to_vul'): ('bridge_env/vul.py', 'vul_of_str', 'vul', 'cls, str_vul: str',
                            "if str_vul in {'None', 'Love', '-'}:\n    return Vul.NONE\nelif str_vul in {'Both', 'All'}:\n"
                            "    return Vul.BOTH\nreturn Vul[str_vul]"),
    ('Contract', 'str_to_contract'): (
        'bridge_env/contract.py', 'contract_of_str', 'contract',
        'cls, str_contract: str, vul: Vul=Vul.NONE, declarer: Optional[Player]=None',
        "if str_contract == 'Passed_out':\n    assert declarer is None\n"
        "    return Contract(final_bid=None, x=False, xx=False, vul=vul, declarer=declarer)\nx = False\nxx = False\n"
        "if str_contract[-1] == 'X':\n    x = True\n    str_contract = str_contract[:-1]\n    if str_contract[-1] == 'X':\n"
        "        xx = True\n        str_contract = str_contract[:-1]\n"
        "return Contract(final_bid=Bid.str_to_bid(str_contract), x=x, xx=xx, vul=vul, declarer=declarer)"),
}
HANDS_PARAMS = ['north_hand', 'east_hand', 'south_hand', 'west_hand']
COQTY2 = dict(COQTY)
COQTY2.update({'json_hands': 'json', 'py_setting': 'py_setting', 'py_log': 'py_log', 'trickhist': '(seat * list card)'})
PRELUDE2 = """(* ---------------------------------------------------------------------------------------------------- parser.py
   A value read from the document is a `json` as long as the code only passes it on; None = the code raises (KeyError,
   AssertionError, AttributeError, ..), or the value is not of the shape the annotations of the parameters promise.
   fixed prelude - E[name] for an Enum E: the member of that name, from the pinned member list *)
Definition py_member {A : Type} (tab : list (A * string)) (name : string) : option A :=
  option_map fst (find (fun p => String.eqb name (snd p)) tab).
(* E[x] for a value x of the document: a key that is not a string is in no Enum *)
Definition py_lookup {A : Type} (tab : list (A * string)) (x : json) : option A :=
  match x with JStr name => py_member tab name | _ => None end.
(* 'k' in d, for a dict d *)
Definition py_has (k : string) (d : json) : bool := match field k d with Some _ => true | None => false end.
(* x is None *)
Definition py_is_none (x : json) : bool := match x with JNull => true | _ => false end.
(* for .. in x: x must be a list (modelling boundary: Python would also iterate the keys of a dict, the characters of a string) *)
Definition py_list (x : json) : option (list json) := match x with JArr l => Some l | _ => None end.
(* a value annotated List[str] *)
Definition py_list_str (x : json) : option (list string) := match x with JArr l => strs_of l | _ => None end.
(* x.items(): only a dict has it; the items in document order *)
Definition py_items (x : json) : option (list (string * json)) := match x with JObj l => Some l | _ => None end.
(* the NamedTuples BoardSetting and BoardLog (field lists pinned); fields the code only passes on are json *)
Record py_setting := mkPySetting {
  ps_hands : deal; ps_dealer : seat; ps_vul : vul; ps_board_id : json; ps_dda : option (list (seat * list (strain * json))) }.
Record py_log := mkPyLog {
  pl_board_id : json; pl_hands : deal; pl_dealer : seat; pl_vul : vul; pl_declarer : option seat; pl_contract : contract;
  pl_taken_trick : json; pl_players : option (list (seat * json)); pl_bid_history : option (list call);
  pl_play_history : option (list (seat * list card)); pl_dda : option (list (seat * list (strain * json)));
  pl_score_type : option json; pl_scores : option (list (side * json)) }.
"""


def coqty2(ty):
    if isinstance(ty, tuple):
        if ty[0] == 'opt':
            return f'option ({coqty2(ty[1])})'
        if ty[0] in ('list', 'set'):
            return f'list ({coqty2(ty[1])})'
        if ty[0] == 'dict':
            return f'list ({coqty2(ty[1])} * {coqty2(ty[2])})'
    return COQTY2[ty]


class ParserTranslator(Translator):
    """parser.py: every function is in the option monad (None = raises).  Expressions are translated in continuation-passing
    style: ev(node, env, k) is the Gallina for `evaluate node, then k(its value)`."""
    def __init__(self, tree):
        self.tree = tree
        self.imports, self.classes, self.functions = {}, {}, {}
        self.pinned, self.n = set(), 0
        self.used_tabs = []
        self.rel = REL2
        self.structure2()

    def bad(self, node, msg):
        raise Untranslatable(f'{REL2}:{getattr(node, "lineno", "?")}: {msg} [{ast.unparse(node)[:70]!r}]')

    def structure2(self):
        for i, node in enumerate(self.tree.body):
            if isinstance(node, ast.Import):
                for a in node.names:
                    self.imports[a.asname or a.name] = 'import' if a.asname is None else None
            elif isinstance(node, ast.ImportFrom):
                for a in node.names:
                    where = 'typing' if node.module == 'typing' and node.level == 0 else \
                        ((node.level, node.module) if a.asname is None else None)
                    if (a.asname or a.name) in self.imports:
                        self.bad(node, f'{a.asname or a.name} is imported twice')
                    self.imports[a.asname or a.name] = where
            elif isinstance(node, ast.ClassDef):
                if node.name != 'JsonParser' or node.name in self.classes or [ast.unparse(b) for b in node.bases] != ['Parser'] \
                        or node.keywords or node.decorator_list:
                    self.bad(node, 'a class other than `class JsonParser(Parser)`')
                self.classes[node.name] = node
            elif isinstance(node, ast.FunctionDef):
                if node.name not in FUNCTIONS2 or node.name in self.functions:
                    self.bad(node, f'function {node.name} is outside the subset (or defined twice)')
                self.functions[node.name] = node
            elif not (i == 0 and is_doc(node)):
                self.bad(node, 'module-level statement outside the subset')
        if 'JsonParser' not in self.classes:
            raise Untranslatable(f'{REL2}: class JsonParser not found')
        for f in FUNCTIONS2:
            if f not in self.functions:
                raise Untranslatable(f'{REL2}: function {f} not found')
        for name, where in IMPORTS2.items():
            if self.imports.get(name) != where:
                raise Untranslatable(f'{REL2}: {name} is not imported from its module')
        for name, where in self.imports.items():
            if where != 'typing' and name not in IMPORTS2:
                raise Untranslatable(f'{REL2}: import of {name} is outside the subset')
        for name in ('list', 'tuple'):
            if name in self.imports or name in self.functions or name in self.classes:
                raise Untranslatable(f'{REL2}: the name {name} is rebound')
        self.methods = {}
        for m in self.classes['JsonParser'].body:
            if is_doc(m):
                continue
            if not isinstance(m, ast.FunctionDef) or m.name in self.methods:
                self.bad(m, 'class-level statement outside the subset (or a method defined twice)')
            self.methods[m.name] = m
        if set(self.methods) != {'parse_all'} | set(METHODS2):
            self.bad(self.classes['JsonParser'], 'the methods of JsonParser are not parse_all, parse_board_settings, parse_board_logs')
        self.same_text(self.methods['parse_all'], [], PARSE_ALL[0], PARSE_ALL[1], self.methods['parse_all'],
                       'JsonParser.parse_all is not the pinned text')

    # ---------------------------------------------------------------- pins
    def exported2(self, name, node):
        if name == 'TrickHistory':
            if ('pkg', name) in self.pinned:
                return
            ok = [x for x in parse('bridge_env/__init__.py').body if isinstance(x, ast.ImportFrom) and
                  any((a.asname or a.name) == name for a in x.names)]
            if len(ok) != 1 or ok[0].module != 'playing_phase' or ok[0].level != 1 or \
                    any(a.name == name and a.asname is not None for a in ok[0].names):
                self.bad(node, 'bridge_env/__init__.py does not take TrickHistory from .playing_phase')
            self.pinned.add(('pkg', name))
        else:
            self.exported(name, node)

    def record(self, cls, node):
        """The NamedTuple cls of abstract_classes.py has the pinned field list."""
        if ('nt', cls) in self.pinned:
            return
        c = self.find_class(ABS, cls, node)
        body = [s for s in c.body if not is_doc(s)]
        got = [(s.target.id, ast.unparse(s.annotation), None if s.value is None else ast.unparse(s.value))
               for s in body if isinstance(s, ast.AnnAssign) and isinstance(s.target, ast.Name)]
        if [ast.unparse(b) for b in c.bases] != ['NamedTuple'] or c.keywords or c.decorator_list or len(got) != len(body) or \
                got != [(f, ann, d) for f, ann, d, _, _ in RECORDS[cls][2]]:
            self.bad(node, f'{ABS}: {cls} is not the NamedTuple with the field list the translator knows')
        for n in parse(ABS).body:
            if isinstance(n, ast.ImportFrom) and any((a.asname or a.name) == 'NamedTuple' for a in n.names) and \
                    not (n.module == 'typing' and n.level == 0 and all(a.asname is None for a in n.names)):
                self.bad(node, f'{ABS}: NamedTuple is not typing.NamedTuple')
        self.pinned.add(('nt', cls))

    def converter(self, cls, name, node):
        rel, fn, ty, params, body = CONVERTERS[(cls, name)]
        key = ('conv', cls, name)
        if key not in self.pinned:
            found = [m for m in self.find_class(rel, cls, node).body if isinstance(m, ast.FunctionDef) and m.name == name]
            if len(found) != 1:
                self.bad(node, f'{rel}: {cls}.{name} not found (or defined twice)')
            self.same_text(found[0], ['classmethod'], params, body, node,
                           f'{rel}: {cls}.{name} is not the text the model was written against')
            self.pinned.add(key)
            if cls == 'Card':
                self.dataclass('Card', node)
                if name == 'str_to_card':
                    self.converter('Card', 'rank_str_to_int', node)
            elif cls == 'Contract':
                self.dataclass('Contract', node)
                self.converter('Bid', 'str_to_bid', node)
            else:
                self.enum(cls, node)
        return fn, ty

    def table(self, cls, node):
        """The list of the members of the Enum cls with their names (for E[name])."""
        self.enum(cls, node)
        if cls not in self.used_tabs:
            self.used_tabs.append(cls)
        return f'py_names_{cls}'

    # ---------------------------------------------------------------- definitions
    def run(self):
        defs = []
        for kind, name in ORDER2:
            defs.append(self.function2(name) if kind == 'fn' else self.method2(name))
        return defs

    def local2(self, name, node, env):
        if not IDENT.match(name) or name in ('self', '_', 'fp', 'list', 'tuple') or name in self.imports or name in self.classes \
                or name in self.functions or name in ENUMS or name in RECORDS or name in env.locs:
            self.bad(node, f'the name {name} cannot be bound here (reserved, or bound already)')

    def function2(self, name):
        gname, pname, pann, pty, rann, rty = FUNCTIONS2[name]
        fd = self.functions[name]
        self.params(fd, [(pname, pann, None)], False)
        if fd.returns is None or ast.unparse(fd.returns) != rann:
            self.bad(fd, f'the result annotation is not {rann}')
        if rann in RECORDS:
            self.record(rann, fd)
        env = Env({pname: V('v_' + pname, pty)})
        self.n, self.rty = 0, rty
        body = [s for i, s in enumerate(fd.body) if not (i == 0 and is_doc(s))]
        term = self.seq2(body, env, fd)
        return f'(* {name}; None = raises *)\nDefinition {gname} (v_{pname} : json) : option ({coqty2(rty)}) :=\n{ind(term)}.'

    def method2(self, name):
        gname, rann, rty = METHODS2[name]
        fd = self.methods[name]
        self.params(fd, [('fp', 'IO[str]', None)], True)
        if fd.returns is None or ast.unparse(fd.returns) != rann:
            self.bad(fd, f'the result annotation is not {rann}')
        self.record(rann[5:-1], fd)
        env = Env({'fp': V('doc', 'fp')})
        self.n, self.rty = 0, rty
        body = [s for i, s in enumerate(fd.body) if not (i == 0 and is_doc(s))]
        term = self.seq2(body, env, fd)
        return f'(* JsonParser.{name}; doc: the document json.load(fp) returns; None = raises *)\n' \
               f'Definition {gname} (doc : json) : option ({coqty2(rty)}) :=\n{ind(term)}.'

    # ---------------------------------------------------------------- the monad
    def bind(self, term, ty, k):
        """match term with None => None | Some x => k(x) end; `Some x` for k is the term itself."""
        x = self.fresh()
        rest = k(V(x, ty))
        if rest == f'Some {x}':
            return term
        return f'match {term} with\n| None => None\n| Some {x} =>\n{ind(rest, 4)}\nend'

    def coerce2(self, v, ty, node):
        if v.ty == ty:
            return v.term
        if isinstance(ty, tuple) and ty[0] == 'opt':
            if v.ty == 'none':
                return 'None'
            return f'(Some {self.coerce2(v, ty[1], node)})'
        if v.ty == ('set', 'card') and ty == 'cset' or v.ty == 'emptylist' and isinstance(ty, tuple) and ty[0] == 'list':
            return v.term
        self.bad(node, f'a {v.ty} where a {ty} is needed')

    # ---------------------------------------------------------------- statements
    def seq2(self, ss, env, at):
        if not ss:
            self.bad(at, 'control reaches the end without `return`')
        s, rest = ss[0], ss[1:]
        if isinstance(s, ast.Return):
            if rest or s.value is None:
                self.bad(s, '`return` here is outside the subset')
            return self.ev(s.value, env, lambda v: f'Some {self.coerce2(v, self.rty, s)}')
        if isinstance(s, ast.Assert):
            if s.msg is not None:
                self.bad(s, 'an assert with a message')
            return self.cond2(s.test, env, lambda b: f'if {b} then\n{ind(self.seq2(rest, env, s))}\nelse None', False)
        if isinstance(s, (ast.Assign, ast.AnnAssign)):
            if s.value is None or (isinstance(s, ast.Assign) and len(s.targets) != 1):
                self.bad(s, 'assignment outside the subset')
            t = s.targets[0] if isinstance(s, ast.Assign) else s.target
            if not isinstance(t, ast.Name):
                self.bad(s, 'assignment target outside the subset')
            self.local2(t.id, s, env)

            def k(v):
                if v.ty == 'none':
                    self.bad(s, 'a local that is None')
                e2 = env.fork()
                if v.ty == 'emptylist':
                    e2.locs[t.id] = V('[]', 'emptylist')
                    return self.seq2(rest, e2, s)
                e2.locs[t.id] = V('v_' + t.id, v.ty)
                return f'let v_{t.id} := {v.term} in\n' + self.seq2(rest, e2, s)
            return self.ev(s.value, env, k)
        if isinstance(s, ast.For):
            # acc = list(); for x in L: acc.append(e)   ==   acc = [e for x in L]
            b = s.body[0] if len(s.body) == 1 else None
            if s.orelse or not isinstance(s.target, ast.Name) or not (
                    isinstance(b, ast.Expr) and isinstance(b.value, ast.Call) and isinstance(b.value.func, ast.Attribute)
                    and b.value.func.attr == 'append' and isinstance(b.value.func.value, ast.Name) and len(b.value.args) == 1
                    and not b.value.keywords):
                self.bad(s, 'a loop other than `for x in L: acc.append(e)`')
            acc = b.value.func.value.id
            if acc not in env.locs or env.locs[acc].ty != 'emptylist':
                self.bad(s, f'{acc} is not a list that is still empty here')
            if any(isinstance(x, ast.Name) and x.id == acc for x in ast.walk(b.value.args[0])) or \
                    any(isinstance(x, ast.Name) and x.id == acc for x in ast.walk(s.iter)):
                self.bad(s, 'the accumulator is read inside the loop')

            def k(v):
                e2 = env.fork()
                e2.locs[acc] = V(self.fresh_name('v_' + acc), v.ty)
                return f'let {e2.locs[acc].term} := {v.term} in\n' + self.seq2(rest, e2, s)
            return self.comprehension(s, s.target, s.iter, b.value.args[0], env, k, 'list')
        self.bad(s, f'statement {type(s).__name__} is outside the subset')

    def fresh_name(self, base):
        self.n += 1
        return f"{base}'{self.n}"

    # ---------------------------------------------------------------- tests
    def cond2(self, n, env, k, dup):
        """Gallina for: evaluate the test, then k(<bool term>).  dup: k may be written out more than once."""
        if isinstance(n, ast.UnaryOp) and isinstance(n.op, ast.Not):
            return self.cond2(n.operand, env, lambda b: k(f'(negb {b})'), dup)
        if isinstance(n, ast.BoolOp) and isinstance(n.op, ast.And) and len(n.values) == 2:
            if not dup:
                self.bad(n, '`and` outside the test of a conditional expression')
            return self.cond2(n.values[0], env,
                              lambda a: f'(if {a} then {self.cond2(n.values[1], env, k, dup)} else {k("false")})', dup)
        if isinstance(n, ast.Compare) and len(n.ops) == 1:
            op, l, r = n.ops[0], n.left, n.comparators[0]
            if isinstance(op, (ast.In, ast.NotIn)) and isinstance(l, ast.Constant) and isinstance(l.value, str):
                def kin(v):
                    if v.ty != 'json':
                        self.bad(n, f'`in` on a {v.ty}')
                    t = f'(py_has {gen.coq_str(l.value)} {v.term})'
                    return k(t if isinstance(op, ast.In) else f'(negb {t})')
                return self.ev(r, env, kin)
            if isinstance(op, (ast.Is, ast.IsNot)) and isinstance(r, ast.Constant) and r.value is None:
                def kis(v):
                    if v.ty == 'json':
                        t = f'(py_is_none {v.term})'
                    elif isinstance(v.ty, tuple) and v.ty[0] == 'opt':
                        t = f'(match {v.term} with None => true | Some _ => false end)'
                    else:
                        self.bad(n, f'a test against None of a {v.ty}')
                    return k(t if isinstance(op, ast.Is) else f'(negb {t})')
                return self.ev(l, env, kis)
        self.bad(n, 'test outside the subset')

    # ---------------------------------------------------------------- expressions
    def probe(self, n, env):
        """The type of the value of n (a dry run)."""
        saved = self.n
        got = []
        self.ev(n, env, lambda v: (got.append(v.ty), 'Some _')[1])
        self.n = saved
        if len(got) != 1:
            self.bad(n, 'internal: the continuation was not called once')
        return got[0]

    def join(self, a, b, node):
        if a == b:
            return a
        if a == 'none' and b != 'none':
            return b if isinstance(b, tuple) and b[0] == 'opt' else ('opt', b)
        if b == 'none':
            return self.join(b, a, node)
        self.bad(node, f'the branches have the types {a} and {b}')

    def comprehension(self, n, target, it, elt, env, k, kind):
        """[elt for target in it] (kind list/set): map_opt over the list."""
        if not isinstance(target, ast.Name):
            self.bad(n, 'a comprehension whose target is not a name')

        def kit(vit):
            if vit.ty == 'json':
                return self.bind(f'py_list {vit.term}', ('list', 'json'), lambda l: body(l, 'json'))
            if isinstance(vit.ty, tuple) and vit.ty[0] == 'list':
                return body(vit, vit.ty[1])
            self.bad(n, f'iteration over a {vit.ty}')

        def body(l, ety):
            inner = env.fork()
            self.local2(target.id, n, inner)
            inner.locs[target.id] = V('v_' + target.id, ety)
            rty = self.probe(elt, inner)
            f = self.ev(elt, inner, lambda e: f'Some {e.term}')
            if rty in ('none', 'emptylist'):
                self.bad(n, 'a comprehension of this element type')
            return self.bind(f'map_opt (fun v_{target.id} =>\n{ind(f, 6)}) {l.term}', (kind, rty), k)
        return self.ev(it, env, kit)

    def ev(self, n, env, k):
        if isinstance(n, ast.Constant):
            if n.value is None:
                return k(V('None', 'none'))
            if type(n.value) is str:
                return k(V(gen.coq_str(n.value), 'str'))
            self.bad(n, 'literal outside the subset')
        if isinstance(n, ast.Name):
            if n.id in env.locs and env.locs[n.id].ty != 'fp':
                return k(env.locs[n.id])
            self.bad(n, 'not a parameter or local')
        if isinstance(n, ast.IfExp):
            rty = self.join(self.probe(n.body, env), self.probe(n.orelse, env), n)
            a = self.ev(n.body, env, lambda v: f'Some {self.coerce2(v, rty, n)}')
            b = self.ev(n.orelse, env, lambda v: f'Some {self.coerce2(v, rty, n)}')
            before = self.n
            c = self.cond2(n.test, env, lambda t: f'Some {t}', True)
            if self.n == before and c.startswith('Some '):            # the test cannot raise
                return self.bind(f'(if {c[5:]} then\n{ind(a, 4)}\n  else\n{ind(b, 4)})', rty, k)
            return self.bind(f'match {c} with\n  | None => None\n  | Some true =>\n{ind(a, 6)}\n  | Some false =>\n{ind(b, 6)}\n  end',
                             rty, k)
        if isinstance(n, ast.Subscript):
            if isinstance(n.value, ast.Name) and n.value.id in ENUMS and n.value.id not in env.locs:          # E[name]
                cls = n.value.id
                if self.imports.get(cls) != IMPORTS2.get(cls) or cls == 'Bid':
                    self.bad(n, f'{cls}[..] is outside the subset')
                tab = self.table(cls, n)

                def ken(v):
                    if v.ty == 'str':
                        return self.bind(f'py_member {tab} {v.term}', ENUMS[cls][1], k)
                    if v.ty == 'json':
                        return self.bind(f'py_lookup {tab} {v.term}', ENUMS[cls][1], k)
                    self.bad(n, f'{cls}[..] of a {v.ty}')
                return self.ev(n.slice, env, ken)
            if not (isinstance(n.slice, ast.Constant) and isinstance(n.slice.value, str)):
                self.bad(n, 'a subscript that is not a string literal')
            key = gen.coq_str(n.slice.value)

            def ksub(v):
                if v.ty == 'json':            # KeyError; TypeError for anything but a dict
                    return self.bind(f'field {key} {v.term}', 'json', k)
                if v.ty == 'json_hands':      # Dict[str, List[str]]
                    return self.bind(f'field {key} {v.term}', 'json',
                                     lambda x: self.bind(f'py_list_str {x.term}', ('list', 'str'), k))
                self.bad(n, f'subscript of a {v.ty} is outside the subset')
            return self.ev(n.value, env, ksub)
        if isinstance(n, ast.Attribute):
            def kat(v):
                if v.ty in REC_TY:
                    for f, _, _, fty, proj in RECORDS[REC_TY[v.ty]][2]:
                        if f == n.attr:
                            self.record(REC_TY[v.ty], n)
                            return k(V(f'({proj} {v.term})', fty))
                self.bad(n, f'attribute {n.attr} of a {v.ty} is outside the subset')
            return self.ev(n.value, env, kat)
        if isinstance(n, (ast.ListComp, ast.SetComp)):
            g = self.comp(n, env)
            return self.comprehension(n, g.target, g.iter, n.elt, env, k, 'list' if isinstance(n, ast.ListComp) else 'set')
        if isinstance(n, ast.DictComp):
            g = self.comp(n, env)
            it = g.iter
            if not (isinstance(it, ast.Call) and isinstance(it.func, ast.Attribute) and it.func.attr == 'items' and not it.args
                    and not it.keywords and isinstance(g.target, ast.Tuple) and len(g.target.elts) == 2
                    and all(isinstance(e, ast.Name) for e in g.target.elts)):
                self.bad(n, 'a dict comprehension other than `{.. for a, b in D.items()}`')
            a, b = g.target.elts[0].id, g.target.elts[1].id

            def kd(v):
                if v.ty != 'json':
                    self.bad(n, f'.items() of a {v.ty}')

                def items(l):
                    inner = env.fork()
                    self.local2(a, n, inner)
                    inner.locs[a] = V('v_' + a, 'str')
                    self.local2(b, n, inner)
                    inner.locs[b] = V('v_' + b, 'json')
                    kty, vty = self.probe(n.key, inner), self.probe(n.value, inner)
                    if kty not in ('seat', 'strain', 'side'):
                        self.bad(n, f'a dict keyed by a {kty}')
                    f = self.ev(n.key, inner, lambda kk: self.ev(n.value, inner, lambda vv: f'Some ({kk.term}, {vv.term})'))
                    return self.bind(f"map_opt (fun '(v_{a}, v_{b}) =>\n{ind(f, 6)}) {l.term}", ('dict', kty, vty), k)
                return self.bind(f'py_items {v.term}', 'items', items)
            return self.ev(it.func.value, env, kd)
        if isinstance(n, ast.Call):
            return self.call2(n, env, k)
        self.bad(n, f'expression {type(n).__name__} is outside the subset')

    def arguments(self, n, names, defaults, env, k):
        """Evaluate the arguments of the call n against the parameter names, in source order; k(name -> V)."""
        if len(n.args) > len(names) or any(kw.arg is None for kw in n.keywords) or any(isinstance(a, ast.Starred) for a in n.args):
            self.bad(n, 'argument list outside the subset')
        pairs = [(names[i], a) for i, a in enumerate(n.args)] + [(kw.arg, kw.value) for kw in n.keywords]
        seen = [p for p, _ in pairs]
        if len(set(seen)) != len(seen) or any(p not in names for p in seen):
            self.bad(n, 'an argument is repeated or unknown')
        for p in names:
            if p not in seen and p not in defaults:
                self.bad(n, f'missing argument {p}')

        def go(i, got):
            if i == len(pairs):
                for p in names:
                    if p not in got:
                        got[p] = defaults[p]
                return k(got)
            return self.ev(pairs[i][1], env, lambda v: go(i + 1, dict(got, **{pairs[i][0]: v})))
        return go(0, {})

    def call2(self, n, env, k):
        f = n.func
        plain = not n.keywords and not any(isinstance(a, ast.Starred) for a in n.args)
        if isinstance(f, ast.Name) and f.id not in env.locs:
            if f.id == 'list' and plain and not n.args:
                return k(V('[]', 'emptylist'))
            if f.id == 'tuple' and plain and len(n.args) == 1:
                def kt(v):
                    if not (isinstance(v.ty, tuple) and v.ty[0] == 'list'):
                        self.bad(n, f'tuple of a {v.ty}')
                    return k(v)
                return self.ev(n.args[0], env, kt)
            if f.id in FUNCTIONS2 and plain and len(n.args) == 1:
                gname, _, _, pty, _, rty = FUNCTIONS2[f.id]

                def kf(v):
                    if v.ty != 'json':
                        self.bad(n, f'{f.id} of a {v.ty}')
                    return self.bind(f'{gname} {v.term}', rty, k)
                return self.ev(n.args[0], env, kf)
            if f.id == 'Hands' and self.imports.get('Hands') == IMPORTS2['Hands']:
                self.hands(n)

                def kh(got):
                    hs = [self.coerce2(got[p], 'cset', n) for p in HANDS_PARAMS]
                    return k(V('(fun p : seat => match p with North => {} | East => {} | South => {} | West => {} end)'.format(*hs),
                               'deal'))
                return self.arguments(n, HANDS_PARAMS, {}, env, kh)
            if f.id == 'TrickHistory' and self.imports.get('TrickHistory') == IMPORTS2['TrickHistory']:
                self.exported2('TrickHistory', n), self.trickhistory(n)

                def kth(got):
                    if got['leader'].ty != 'seat' or got['cards'].ty != ('list', 'card'):
                        self.bad(n, 'TrickHistory of these types')
                    return k(V(f'({got["leader"].term}, {got["cards"].term})', 'trickhist'))
                return self.arguments(n, [x for x, _ in TRICKHISTORY], {}, env, kth)
            if f.id in RECORDS and self.imports.get(f.id) == IMPORTS2[f.id]:
                self.record(f.id, n)
                cty, ctor, fields = RECORDS[f.id]

                def kr(got):
                    return k(V(f'({ctor} ' + ' '.join(self.coerce2(got[x], fty, n) for x, _, _, fty, _ in fields) + ')', cty))
                return self.arguments(n, [x for x, _, _, _, _ in fields],
                                      {x: V('None', 'none') for x, _, d, _, _ in fields if d == 'None'}, env, kr)
            self.bad(n, 'call outside the subset')
        if isinstance(f, ast.Attribute) and isinstance(f.value, ast.Name) and f.value.id not in env.locs:
            cls, name = f.value.id, f.attr
            if cls == 'json' and name == 'load' and plain and len(n.args) == 1 and isinstance(n.args[0], ast.Name) and \
                    n.args[0].id in env.locs and env.locs[n.args[0].id].ty == 'fp':
                return k(V(env.locs[n.args[0].id].term, 'json'))
            if (cls, name) in CONVERTERS and CONVERTERS[(cls, name)][1] is not None and self.imports.get(cls) == IMPORTS2.get(cls):
                self.exported2(cls, n)
                fn, rty = self.converter(cls, name, n)

                def as_string(v, kk):
                    if v.ty == 'str':
                        return kk(v.term)
                    if v.ty == 'json':            # the parameter is annotated str
                        return self.bind(f'as_str {v.term}', 'str', lambda x: kk(x.term))
                    self.bad(n, f'{cls}.{name} of a {v.ty}')
                if name == 'str_to_contract':
                    def kc(got):
                        vul = self.coerce2(got['vul'], 'vul', n)
                        decl = self.coerce2(got['declarer'], ('opt', 'seat'), n)
                        return as_string(got['str_contract'], lambda t: self.bind(f'{fn} {t} {vul} {decl}', rty, k))
                    return self.arguments(n, ['str_contract', 'vul', 'declarer'],
                                          {'vul': V('VNone', 'vul'), 'declarer': V('None', 'none')}, env, kc)
                if plain and len(n.args) == 1:
                    return self.ev(n.args[0], env, lambda v: as_string(v, lambda t: self.bind(f'{fn} {t}', rty, k)))
        self.bad(n, 'call outside the subset')

    def tables2(self, have):
        out = ''
        for cls in self.used_tabs:
            if cls in have:
                continue
            _, ty, members, ctor = ENUMS[cls]
            rows = '; '.join(f'({ctor[m]}, {gen.coq_str(m)})' for m, _ in members)
            out += f'(* the members of {cls} and their names (pinned) *)\n' \
                   f'Definition py_names_{cls} : list ({ty} * string) := [{rows}].\n'
        return out


def gen_jsonw_fns(path=None, overrides=None):
    """Translate writer.py of the repository (or the file `path`, for sensitivity studies; `overrides` maps further
    relative paths of the repository to files read in their place).  Returns (file name under coq/Gen, text), like the
    other translators; `write()` stores it."""
    _SRC.clear()
    if overrides:
        _SRC.update(overrides)
    if path is not None:
        _SRC[REL] = path
    try:
        # extract-function normal form first (gen.py): a private module-level helper that only returns an expression is read through
        tr = Translator(gen.inline_private_functions(parse(REL)))
        defs = tr.run()
        tables = tr.tables()
        pt = ParserTranslator(gen.inline_private_functions(gen.normalise_ifs(parse(REL2), 'expr')))
        defs2 = pt.run()
        tables2 = pt.tables2(tr.used_names)
    finally:
        _SRC.clear()
    head = f'(* GENERATED by harness/gen_jsonw.py from {REL} and {REL2} -- do not edit *)\n'
    return 'JsonFns.v', head + PRELUDE + tables + '\n'.join(defs) + '\n' + PRELUDE2 + tables2 + '\n'.join(defs2) + '\n'


def write(path=None, out=None):
    import os
    import lib
    name, text = gen_jsonw_fns(path)
    out = out or os.path.join(gen.GEN, name)
    return out, lib.write_if_changed(out, text)


if __name__ == '__main__':
    o, changed = write()
    print(f'{o}: ' + ('rewritten' if changed else 'unchanged'))
