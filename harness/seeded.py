"""Seeded-change bookkeeping.
  seeded.py collect <worktree> <prop> <id>   verify an independently written change (tests pass with it, demo fails with it and
                                            passes without it) in its scratch worktree and store it under seeded/<id>/
  seeded.py run <id> [tier]                 apply seeded/<id>/patch.diff to /repo, run ./check <prop>, undo, record the outcome"""
import json, os, subprocess, sys, time
V = os.path.dirname(os.path.dirname(os.path.abspath(__file__)))
PY = '/venv/bin/python'


def sh(cmd, cwd=None, timeout=1800):
    p = subprocess.run(cmd, shell=True, cwd=cwd, capture_output=True, text=True, timeout=timeout)
    return p.returncode, (p.stdout + p.stderr)


def collect(wt, prop, sid):
    d = os.path.join(V, 'seeded', sid)
    os.makedirs(d, exist_ok=True)
    rc, diff = sh('git diff -- bridge_env', wt)
    assert diff.strip(), 'no change in worktree'
    open(os.path.join(d, 'patch.diff'), 'w').write(diff)
    ran = {}
    rc, out = sh(f'{PY} -m pytest -q -p no:cacheprovider --timeout=900 2>&1 | tail -1', wt)
    ran['tests_with_change'] = out.strip()
    rc1, out1 = sh(f'{PY} demo_mutation.py 2>&1 | tail -5', wt, 900)
    rcw, _ = sh(f'{PY} demo_mutation.py', wt, 900)
    ran['demo_with_change'] = dict(exit=rcw, tail=out1.strip()[-600:])
    sh(f'git apply -R {d}/patch.diff', wt)
    try:
        rco, outo = sh(f'{PY} demo_mutation.py', wt, 900)
        ran['demo_without_change'] = dict(exit=rco, tail=outo.strip()[-300:])
    finally:
        sh(f'git apply {d}/patch.diff', wt)
    ok = ('4366 passed' in ran['tests_with_change']) and rcw != 0 and rco == 0
    for f in ('demo_mutation.py', 'MUTATION_NOTE.md'):
        if os.path.exists(os.path.join(wt, f)):
            open(os.path.join(d, f), 'w').write(open(os.path.join(wt, f)).read())
    note = open(os.path.join(wt, 'MUTATION_NOTE.md')).read() if os.path.exists(os.path.join(wt, 'MUTATION_NOTE.md')) else ''
    meta = dict(id=sid, property=prop, confirmed=ok, what_i_ran=ran, written_by='independent sub-agent given only the property text and a scratch worktree',
                needs_to_manifest=note[:1500])
    json.dump(meta, open(os.path.join(d, 'meta.json'), 'w'), indent=1)
    print(sid, 'confirmed' if ok else 'NOT CONFIRMED', ran['tests_with_change'], rcw, rco)


def run(sid, tier='quick'):
    d = os.path.join(V, 'seeded', sid)
    meta = json.load(open(os.path.join(d, 'meta.json')))
    prop = meta['property']
    rc, out = sh('git status --porcelain -- bridge_env', '/repo')
    assert not out.strip(), '/repo is not clean: ' + out
    rc, out = sh(f'git apply {d}/patch.diff', '/repo')
    assert rc == 0, out
    t = time.time()
    ev = os.path.join(V, 'evidence', prop + '.json')
    saved = open(ev).read() if os.path.exists(ev) else None
    try:
        rc, out = sh(f'./check {prop} --tier {tier}', V, 3600)
    finally:
        sh('git checkout -- .', '/repo')
        if saved is not None:          # evidence describes the unchanged tree, never a seeded run
            open(ev, 'w').write(saved)
    lines = [l for l in out.splitlines() if l.startswith(('VIOLATION', 'KNOWN', prop))]
    res = dict(check=f'./check {prop} --tier {tier}', exit=rc, seconds=round(time.time() - t), output=lines[-6:],
               caught=(rc == 1 and any(l.startswith('VIOLATION') for l in lines)),
               with_failing_input=any(l.startswith('VIOLATION') and 'no-failing-input-found' not in l for l in lines))
    meta.setdefault('check_results', {})[tier] = res
    json.dump(meta, open(os.path.join(d, 'meta.json'), 'w'), indent=1)
    print(sid, prop, 'CAUGHT' if res['caught'] else 'MISSED', 'input' if res['with_failing_input'] else 'no-input', res['seconds'], 's')
    for l in lines[-4:]:
        print('   ', l)
    # keep the first replay as illustration
    rp = os.path.join(V, 'replays')
    if os.path.isdir(rp):
        fs = sorted(os.listdir(rp))
        if fs:
            r = json.load(open(os.path.join(rp, fs[0])))
            json.dump({k: r.get(k) for k in ('property', 'kind', 'input', 'observed', 'expected', 'how_found', 'theorem_or_tie')},
                      open(os.path.join(d, 'replay_example.json'), 'w'), indent=1, default=str)
        subprocess.run(['rm', '-rf', rp])


if __name__ == '__main__':
    if sys.argv[1] == 'collect':
        collect(*sys.argv[2:5])
    else:
        run(*sys.argv[2:])
