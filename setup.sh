#!/bin/sh
# Build the framework from files on disk only (offline): regenerate coq/Gen from /repo,
# full .vo build of every model, spec, proof and property file, then the hygiene greps.
set -e
cd "$(dirname "$0")"
mkdir -p work evidence
# no admitted proofs, no axioms of our own, no relaxed kernel checks
if grep -rnE '\b(Admitted|admit|Axiom|Parameter|Conjecture|Admit Obligations)\b|Unset Guard|bypass_check|type-in-type|impredicative-set' \
     --include='*.v' coq/Model coq/Spec coq/Proofs coq/Props coq/Legacy 2>/dev/null; then
  echo "setup: forbidden construct found" >&2; exit 1
fi
/venv/bin/python harness/setup_build.py
